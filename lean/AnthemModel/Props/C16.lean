/-
  C16 — any input text leads to a result or a reported error, never a crash.
  Status (partial). Every panic site of the modelled stages is an explicit predicate of the model
  (`substPanics`, `globalsPanic`, the `Outcome.panic` results of the external pipeline). Proved:
  substitution never panics on sort-compatible arguments (the only way the translators and
  simplifiers call it); tau* / mu panic on no program (since fix 1d6d77a the fresh global variables
  are chosen without index arithmetic that can overflow); the TPTP printer has no panicking numeral
  after fix ca17dcd; an external task that passes the applicability checks reaches `unreachable!()`
  in the assembly for no role (after fix 3401bdf); `external_never_panics`: the whole
  external-equivalence pipeline (checks, tau*, placeholders, completion, simplification, outline,
  assembly) panics on no task - in particular `expect("tau_star did not create a completable
  theory")` is unreachable (`completion_of_tau_star_exists`); numerals and arities beyond the
  integer type are parse errors (fix 515e4a3: `out_of_range_refused`, `accepted_numerals_in_range`);
  the three `while occupied.contains(..)` searches for a free name (private renaming, propositional
  renaming, fresh global variables) stop within `|occupied| + 1` candidates at the first free one
  (`*_search_terminates`, `*_search_first_free`) - the model's fuel is never what ends them.
  NOT expressible in the model: stack depth, allocation failure (known finding: an output predicate
  of absurd arity), the pest parser's own behaviour — explored with mutated inputs through every
  CLI command by the check; a call of the implementation that does not return is the outcome
  `(hang)` of the correspondence harness and a time-out of the CLI exploration.
-/
import AnthemModel.Proofs.SubstBasic
import AnthemModel.Model.External
import AnthemModel.Model.TptpFmt
import AnthemModel.Proofs.PanicFree
import AnthemModel.Model.AspParse
import AnthemModel.Model.FolParse
import AnthemModel.Proofs.RenameFresh
import AnthemModel.Proofs.PropRename
import AnthemModel.Proofs.TauStarRules
namespace Anthem.C16

theorem gterm_substPanics_false (t : GTerm) (v : Var) (s : GTerm) (hc : SortCompatible v s) :
    t.substPanics v s = false := by
  cases t with
  | int it =>
    simp only [GTerm.substPanics, Bool.and_eq_false_imp, decide_eq_true_eq]
    intro h; obtain ⟨si, rfl⟩ := hc.1 h; rfl
  | symb st =>
    simp only [GTerm.substPanics, Bool.and_eq_false_imp, decide_eq_true_eq]
    intro h; obtain ⟨ss, rfl⟩ := hc.2 h; rfl
  | inf | sup | fc _ | var _ => rfl

theorem atomic_substPanics_false (a : AtomicF) (v : Var) (s : GTerm) (hc : SortCompatible v s) :
    a.substPanics v s = false := by
  cases a with
  | tru | fls => rfl
  | atom a =>
    simp only [AtomicF.substPanics, List.any_eq_false]
    intro t _; simp [gterm_substPanics_false t v s hc]
  | cmp t gs =>
    simp only [AtomicF.substPanics, Bool.or_eq_false_iff, List.any_eq_false]
    exact ⟨gterm_substPanics_false t v s hc, fun g _ => by simp [gterm_substPanics_false g.term v s hc]⟩

/-- **Substitution never panics on sort-compatible arguments**, whatever renaming happens on
    the way (for every fuel, hence for `Formula.substPanics`). -/
theorem substPanicsFuel_false (v : Var) (s : GTerm) (hc : SortCompatible v s) :
    ∀ (n : Nat) (F : Formula), F.substPanicsFuel n v s = false := by
  intro n
  induction n with
  | zero =>
    intro F
    cases F <;> simp [Formula.substPanicsFuel, atomic_substPanics_false _ v s hc]
  | succ n ih =>
    intro F
    cases F with
    | atomic a => simp [Formula.substPanicsFuel, atomic_substPanics_false a v s hc]
    | not f => simp [Formula.substPanicsFuel, ih f]
    | bin c l r => simp [Formula.substPanicsFuel, ih l, ih r]
    | quant q vs f =>
      simp only [Formula.substPanicsFuel]
      split
      · rfl
      · exact ih _

theorem substitute_panic_free (F : Formula) (v : Var) (s : GTerm) (hc : SortCompatible v s) :
    F.substPanics v s = false := substPanicsFuel_false v s hc _ F

/-- A variable substituted by a variable of its own sort (what every renaming and the
    transitive-equality rewrite do) is always compatible. -/
theorem var_for_var_compatible (v w : Var) (h : v.sort = w.sort) : SortCompatible v w.toTerm := by
  obtain ⟨vn, vs⟩ := v
  obtain ⟨wn, ws⟩ := w
  simp only at h
  subst h
  cases vs <;> simp [SortCompatible, Var.toTerm]

/-- **Repaired defect (global index).** `choose_fresh_global_variables` computed `max_taken_var + i` with a
    plain addition: `p(V18446744073709551615).` overflowed (panic in the dev profile). Now the addition is
    checked and the smallest unused indices are the fallback; the chosen names are pairwise different, no
    variable of the program is among them, and there is one per head argument - for EVERY program
    (`chooseFreshGlobals_spec` no longer needs "no overflow"). -/
theorem fresh_globals_always_fresh (p : Asp.Program) :
    (chooseFreshGlobals p).Nodup ∧ (∀ g ∈ chooseFreshGlobals p, g ∉ p.vars) ∧
      (chooseFreshGlobals p).length = maxHeadArity p :=
  chooseFreshGlobals_spec p rfl

/-- tau* and mu no longer panic on any program -/
theorem globals_never_panic (p : Asp.Program) : globalsPanic p = false := rfl

/-- the former witness: the globals of `p(V18446744073709551615, X) :- q(V1), r(V2).` are the smallest
    unused names -/
theorem globals_overflow_witness :
    chooseFreshGlobals [⟨.basic ⟨"p", [.var "V18446744073709551615", .var "X"]⟩,
      [.lit ⟨.pos, ⟨"q", [.var "V1"]⟩⟩, .lit ⟨.pos, ⟨"r", [.var "V2"]⟩⟩]⟩] = ["V3", "V4"] := by decide

/-- After fix ca17dcd the TPTP printer panics on no formula. -/
theorem tptp_panic_free (F : Formula) : F.tptpPanics = false := by
  induction F with
  | atomic a =>
    cases a <;> simp [Formula.tptpPanics, AtomicF.tptpPanics, ITerm.tptpPanics]
    · rename_i a; intro t _; cases t <;> rfl
    · rename_i t gs
      refine ⟨by cases t <;> rfl, fun g _ => by cases g.term <;> rfl⟩
  | not f ih => simpa [Formula.tptpPanics] using ih
  | bin c l r ihl ihr => simp [Formula.tptpPanics, ihl, ihr]
  | quant q vs f ih => simpa [Formula.tptpPanics] using ih

/-- the completion of a tau* theory always exists: the `expect` in `theory_translate` cannot fail -/
theorem completion_of_tau_star_exists (P : Asp.Program) (ins : List Pred) (hp : globalsPanic P = false) :
    ∃ Γ, completion (tauStar P) ins = some Γ := completion_tauStar_some P ins hp

/-- **The external-equivalence pipeline never panics**: the only panic of
    `ExternalEquivalenceTask::decompose` that was reachable - the overflow of the global-variable index of
    tau* - is repaired, and no other `expect`, `unwrap` or `unreachable!` of the pipeline, of the outline
    construction or of the assembly is reachable, for any task. -/
theorem external_never_panics (t : ExternalTask) (fuel : Nat) (s : String) :
    externalProblems t fuel ≠ .panic s := by
  intro h
  rcases externalProblems_panic t fuel s h with h1 | ⟨PL, _, h1⟩ <;> cases h1

/-- the statement as it was before the repair (a panic implies the overflow condition, now never true) -/
theorem external_panic_only_overflow (t : ExternalTask) (fuel : Nat) (s : String)
    (h : externalProblems t fuel = .panic s) :
    globalsPanic t.program = true ∨ ∃ PL, t.specification = .inl PL ∧ globalsPanic PL = true :=
  externalProblems_panic t fuel s h

/-- **Repaired defect (numeral range).** A numeral or arity beyond the integer type used to pass the
    grammar and panic in the tree builder (`ParseIntError` unwrap). Since the fix the parser refuses a text
    the grammar accepts when one of its numbers does not fit (`parseProgramChecked` etc. model
    `impl Parser for PestParser`; the outcome on such texts is compared with the implementation on every
    run): a text whose tree has a numeral out of range is refused, and nothing else changes. -/
theorem out_of_range_refused (text : String) (p : Asp.Program) (h : Asp.parseProgram text = some p) :
    Asp.parseProgramChecked text = (if p.inRange then some p else none) := by
  unfold Asp.parseProgramChecked
  rw [h]

/-- every numeral of a program the parser returns fits `isize`: the later stages never see another one -/
theorem accepted_numerals_in_range (text : String) (p : Asp.Program) (h : Asp.parseProgramChecked text = some p) :
    p.inRange = true := by
  unfold Asp.parseProgramChecked at h
  cases h0 : Asp.parseProgram text with
  | none => simp [h0] at h
  | some p0 =>
    simp only [h0] at h
    split at h
    · rename_i hr; injection h with h; subst h; exact hr
    · cases h

/-! ## the searches for a free name terminate

`while occupied.contains(&candidate(i)) { i += 1 }` occurs three times in the implementation (private
renaming `q_p, q_p1, ..`, propositional renaming `p_p, p_p1, ..`, fresh global variables `V<k>`). The
model runs each with fuel `|occupied| + 1`. The theorems say that the fuel is never what stops the
search: the index returned is free (so the loop of the implementation, which has no fuel, stops there
too), it is the FIRST free index from the start, and it is at most `start + |occupied|`. -/

theorem findExt_first_free (occ : List Pred) (p : Pred) :
    ∀ (fuel i j : Nat), i ≤ j → j < findExt occ p fuel i → renamedPred p (renExt j) ∈ occ := by
  intro fuel
  induction fuel with
  | zero => intro i j h1 h2; simp only [findExt] at h2; omega
  | succ n ih =>
    intro i j h1 h2
    simp only [findExt] at h2
    split at h2
    · rename_i hm
      by_cases hij : i = j
      · subst hij; exact hm
      · exact ih (i + 1) j (by omega) h2
    · omega

theorem findExt_le (occ : List Pred) (p : Pred) : ∀ (fuel i : Nat), findExt occ p fuel i ≤ i + fuel := by
  intro fuel
  induction fuel with
  | zero => intro i; simp [findExt]
  | succ n ih =>
    intro i
    simp only [findExt]
    split
    · have := ih (i + 1); omega
    · omega

/-- private renaming: the search stops at a free name ... -/
theorem private_rename_search_terminates (occ : List Pred) (p : Pred) :
    renamedPred p (renExt (findExt occ p (occ.length + 1) 0)) ∉ occ :=
  findExt_spec occ p _ 0 (exists_free occ p)

/-- ... which is the first free one, after at most `|occupied|` occupied candidates -/
theorem private_rename_search_first_free (occ : List Pred) (p : Pred) :
    (∀ j, j < findExt occ p (occ.length + 1) 0 → renamedPred p (renExt j) ∈ occ) ∧
    findExt occ p (occ.length + 1) 0 ≤ occ.length := by
  refine ⟨fun j hj => findExt_first_free occ p (occ.length + 1) 0 j (Nat.zero_le _) hj, ?_⟩
  -- were the index |occ| + 1, all of the |occ| + 1 candidates below it would be occupied
  have hle := findExt_le occ p (occ.length + 1) 0
  by_cases h : findExt occ p (occ.length + 1) 0 ≤ occ.length
  · exact h
  · exfalso
    obtain ⟨j, _, hj2, hj3⟩ := exists_free occ p
    exact hj3 (findExt_first_free occ p (occ.length + 1) 0 j (Nat.zero_le _) (by omega))

theorem findPropName_first_free (occ : List String) (s : String) :
    ∀ (fuel i j : Nat), i ≤ j → j < findPropName occ s fuel i → propName s j ∈ occ := by
  intro fuel
  induction fuel with
  | zero => intro i j h1 h2; simp only [findPropName] at h2; omega
  | succ n ih =>
    intro i j h1 h2
    simp only [findPropName] at h2
    split at h2
    · rename_i hm
      by_cases hij : i = j
      · subst hij; exact hm
      · exact ih (i + 1) j (by omega) h2
    · omega

/-- propositional renaming (`rename_conflicting_symbols`): stops at the first free name -/
theorem prop_rename_search_terminates (occ : List String) (s : String) :
    propName s (findPropName occ s (occ.length + 1) 0) ∉ occ ∧
    ∀ j, j < findPropName occ s (occ.length + 1) 0 → propName s j ∈ occ :=
  ⟨findPropName_spec occ s _ 0 (exists_free_propName occ s),
   fun j hj => findPropName_first_free occ s (occ.length + 1) 0 j (Nat.zero_le _) hj⟩

theorem findFreeGlobal_first_free (occ : List String) :
    ∀ (fuel k j : Nat), k ≤ j → j < findFreeGlobal occ fuel k → ("V" ++ toString j) ∈ occ := by
  intro fuel
  induction fuel with
  | zero => intro i j h1 h2; simp only [findFreeGlobal] at h2; omega
  | succ n ih =>
    intro i j h1 h2
    simp only [findFreeGlobal] at h2
    split at h2
    · rename_i hm
      by_cases hij : i = j
      · subst hij; exact hm
      · exact ih (i + 1) j (by omega) h2
    · omega

/-- fresh global variables (the fallback of `choose_fresh_global_variables`): stops at the first free index
    from `k` on -/
theorem fresh_global_search_terminates (occ : List String) (k : Nat) :
    ("V" ++ toString (findFreeGlobal occ (occ.length + 1) k)) ∉ occ ∧
    ∀ j, k ≤ j → j < findFreeGlobal occ (occ.length + 1) k → ("V" ++ toString j) ∈ occ :=
  ⟨findFreeGlobal_spec occ _ k (exists_free_global occ k),
   fun j h1 h2 => findFreeGlobal_first_free occ (occ.length + 1) k j h1 h2⟩

/-- non-vacuity: with `q_p` and `q_p1` occupied the search for `q/1` passes two candidates and stops at `q_p2` -/
example : findExt [⟨"q_p", 1⟩, ⟨"q_p1", 1⟩, ⟨"q_p", 2⟩] ⟨"q", 1⟩ 4 0 = 2 := by decide

end Anthem.C16
