/-
  C17 — substitution of a term for a variable never captures variables.

  Status: the model mirrors `Formula::substitute` after the `fix:` commit b9b9933 (see
  known_findings.jsonl for the two witnesses that failed before). Proved: the substitution lemma
  for terms, atoms and formulas — including the renaming of captured binders, with names chosen
  by the real fresh-name search — for every formula whose quantifier blocks bind no variable
  twice (`NodupBinders`; a block like `exists X X …` is the only case left open), in HT and
  classical semantics; the free-variable bound; the same lemma without `NodupBinders` when no
  binder needs renaming. The unconditional statement `SubstituteCorrect` is kept visible.
-/
import AnthemModel.Proofs.SubstBasic
import AnthemModel.Proofs.SubstFull
namespace Anthem.C17

/-- The property at full strength (HT version; the classical one is the `there` world). -/
def SubstituteCorrect : Prop :=
  ∀ (F : Formula) (v : Var) (s : GTerm), SortCompatible v s →
    ∀ (M : HTI) (w : World) (ρ : Asg),
      ht M (F.subst v s) w ρ ↔ ht M F w (ρ.set v (s.eval M.fc ρ))

/-- Term level, no side condition beyond sort compatibility. -/
theorem term_substitute_correct (fc : FcI) (ρ : Asg) (t : GTerm) (v : Var) (s : GTerm)
    (hc : SortCompatible v s) :
    (t.subst v s).eval fc ρ = t.eval fc (ρ.set v (s.eval fc ρ)) :=
  GTerm.eval_subst fc ρ t v s hc

/-- Atomic formulas, no side condition beyond sort compatibility. -/
theorem atomic_substitute_correct (P : PredI) (fc : FcI) (ρ : Asg) (a : AtomicF) (v : Var)
    (s : GTerm) (hc : SortCompatible v s) :
    (a.subst v s).sat P fc ρ ↔ a.sat P fc (ρ.set v (s.eval fc ρ)) :=
  a.sat_subst P fc ρ v s hc

/-- Formula level, under `NoRename` (no binder in scope occurs in the term). -/
theorem substitute_correct_partial (F : Formula) (v : Var) (s : GTerm) (hc : SortCompatible v s)
    (hn : NoRename s.vars v F) (M : HTI) (w : World) (ρ : Asg) :
    ht M (F.subst v s) w ρ ↔ ht M F w (ρ.set v (s.eval M.fc ρ)) :=
  ht_substFuel_noRename M v s hc (F.depth + 1) F (Nat.le_succ _) hn w ρ

theorem substitute_correct_partial_classical (F : Formula) (v : Var) (s : GTerm)
    (hc : SortCompatible v s) (hn : NoRename s.vars v F) (I : Interp) (ρ : Asg) :
    sat I (F.subst v s) ρ ↔ sat I F (ρ.set v (s.eval I.fc ρ)) := by
  have := substitute_correct_partial F v s hc hn ⟨I.pred, I.pred, I.fc⟩ .there ρ
  rwa [ht_there_eq_sat, ht_there_eq_sat] at this

/-- **Substitution never captures** (general case, renaming included): the result has, in every HT
    interpretation, world and assignment, the truth value of the original with the variable
    assigned the term's value. -/
theorem substitute_correct (F : Formula) (hnb : NodupBinders F) (v : Var) (s : GTerm)
    (hc : SortCompatible v s) (M : HTI) (w : World) (ρ : Asg) :
    ht M (F.subst v s) w ρ ↔ ht M F w (ρ.set v (s.eval M.fc ρ)) :=
  ht_subst M F hnb v s hc w ρ

theorem substitute_correct_classical (F : Formula) (hnb : NodupBinders F) (v : Var) (s : GTerm)
    (hc : SortCompatible v s) (I : Interp) (ρ : Asg) :
    sat I (F.subst v s) ρ ↔ sat I F (ρ.set v (s.eval I.fc ρ)) :=
  sat_subst I F hnb v s hc ρ

/-- Free variables of the result: those of the original minus the variable, plus (at most) those
    of the term. -/
theorem substitute_fv (F : Formula) (hnb : NodupBinders F) (v : Var) (s : GTerm)
    (hc : SortCompatible v s) (u : Var) (hu : (F.subst v s).FV u) :
    (F.FV u ∧ u ≠ v) ∨ u ∈ s.vars :=
  subst_FV F hnb v s hc u hu

/-- The fresh binder chosen by the real search is never a taken name. -/
theorem fresh_binder_not_taken (base : Var) (taken : List Var) : freshVar base taken ∉ taken :=
  freshVar_not_mem base taken

/-- Non-vacuity: a formula that needs renaming satisfies the hypotheses. -/
example : NodupBinders (.quant .ex [⟨"Y", .general⟩] (.atomic (.atom ⟨"p", [.var "X", .var "Y"]⟩))) ∧
    SortCompatible ⟨"X", .general⟩ (.var "Y") := by
  simp [NodupBinders, SortCompatible]

/-- Bound occurrences are untouched: substituting a variable bound by the outermost block
    returns the formula itself. -/
theorem substitute_bound (q : Quant) (vs : List Var) (f : Formula) (v : Var) (s : GTerm)
    (h : v ∈ vs) : (Formula.quant q vs f).subst v s = .quant q vs f := by
  simp [Formula.subst, Formula.substFuel, h]

/-- The two witnesses that failed before the fix now give the right trees (kernel-evaluated). -/
example : (Formula.quant .ex [⟨"Y", .general⟩] (.atomic (.atom ⟨"p", [.var "Y"]⟩))).subst
    ⟨"Y1", .general⟩ (.var "Y") =
    .quant .ex [⟨"Y2", .general⟩] (.atomic (.atom ⟨"p", [.var "Y2"]⟩)) := by decide

/-- Non-vacuity of the partial theorem: a quantified formula satisfying `NoRename`. -/
example : NoRename (GTerm.var "Z").vars ⟨"X", .general⟩
    (.quant .ex [⟨"Y", .general⟩] (.atomic (.atom ⟨"p", [.var "X", .var "Y"]⟩))) := by
  simp [NoRename, GTerm.vars]

end Anthem.C17
