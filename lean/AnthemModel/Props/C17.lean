/-
  C17 — substitution of a term for a variable never captures variables.

  The model mirrors `Formula::substitute` after the `fix:` commit b9b9933 (see
  known_findings.jsonl for the two witnesses that failed before; reverting the fix makes the
  correspondence fail). Proved at full strength: for EVERY formula (binders reusing the
  substituted name, binders naming variables of the term, several such binders in one block,
  the same variable bound twice in a block, fresh-name candidates already taken, same name at two
  sorts), every variable and every sort-compatible term, in every HT interpretation, world and
  assignment (hence classically), the result has the truth value of the original with the
  variable assigned the term's value; its free variables are among those of the original minus
  the variable plus those of the term. The fresh names are the ones the real search picks
  (`freshVar`, shown fresh by a pigeonhole argument).
-/
import AnthemModel.Proofs.SubstBasic
import AnthemModel.Proofs.SubstFull
namespace Anthem.C17

/-- The property at full strength (HT version; the classical one is the `there` world). -/
def SubstituteCorrect : Prop :=
  ∀ (F : Formula) (v : Var) (s : GTerm), SortCompatible v s →
    ∀ (M : HTI) (w : World) (ρ : Asg),
      ht M (F.subst v s) w ρ ↔ ht M F w (ρ.set v (s.eval M.fc ρ))

/-- **C17, first sentence — proved without side condition.** -/
theorem substitute_correct : SubstituteCorrect :=
  fun F v s hc M w ρ => ht_subst M F v s hc w ρ

theorem substitute_correct_classical (F : Formula) (v : Var) (s : GTerm)
    (hc : SortCompatible v s) (I : Interp) (ρ : Asg) :
    sat I (F.subst v s) ρ ↔ sat I F (ρ.set v (s.eval I.fc ρ)) :=
  sat_subst I F v s hc ρ

/-- **C17, second sentence.** Free variables of the result: those of the original minus the
    variable, plus (at most) those of the term. -/
theorem substitute_fv (F : Formula) (v : Var) (s : GTerm)
    (hc : SortCompatible v s) (u : Var) (hu : (F.subst v s).FV u) :
    (F.FV u ∧ u ≠ v) ∨ u ∈ s.vars :=
  subst_FV F v s hc u hu

/-- Term level. -/
theorem term_substitute_correct (fc : FcI) (ρ : Asg) (t : GTerm) (v : Var) (s : GTerm)
    (hc : SortCompatible v s) :
    (t.subst v s).eval fc ρ = t.eval fc (ρ.set v (s.eval fc ρ)) :=
  GTerm.eval_subst fc ρ t v s hc

/-- Atomic formulas. -/
theorem atomic_substitute_correct (P : PredI) (fc : FcI) (ρ : Asg) (a : AtomicF) (v : Var)
    (s : GTerm) (hc : SortCompatible v s) :
    (a.subst v s).sat P fc ρ ↔ a.sat P fc (ρ.set v (s.eval fc ρ)) :=
  a.sat_subst P fc ρ v s hc

/-- **C17, third sentence.** Bound occurrences are untouched: substituting a variable bound by
    the outermost block returns the formula itself … -/
theorem substitute_bound (q : Quant) (vs : List Var) (f : Formula) (v : Var) (s : GTerm)
    (h : v ∈ vs) : (Formula.quant q vs f).subst v s = .quant q vs f := by
  simp [Formula.subst, Formula.substFuel, h]

/-- … and a variable of the same name but another sort is a different variable: a term that does
    not mention `v` is not changed (general variable vs integer variable of the same name). -/
theorem substitute_other_sort (x : String) (s : GTerm) :
    (GTerm.int (.var x)).subst ⟨x, .general⟩ s = .int (.var x) ∧
    (GTerm.var x).subst ⟨x, .integer⟩ s = .var x := by
  simp [GTerm.subst]

/-- The fresh binder chosen by the real search is never a taken name. -/
theorem fresh_binder_not_taken (base : Var) (taken : List Var) : freshVar base taken ∉ taken :=
  freshVar_not_mem base taken

/-- The two witnesses that failed before the fix now give the right trees (kernel-evaluated). -/
example : (Formula.quant .ex [⟨"Y", .general⟩] (.atomic (.atom ⟨"p", [.var "Y"]⟩))).subst
    ⟨"Y1", .general⟩ (.var "Y") =
    .quant .ex [⟨"Y2", .general⟩] (.atomic (.atom ⟨"p", [.var "Y2"]⟩)) := by decide

/-- Non-vacuity: `SortCompatible` holds for the substitutions the library performs. -/
example : SortCompatible ⟨"X", .general⟩ (.var "Y") ∧ SortCompatible ⟨"X", .integer⟩ (.int (.num 3)) := by
  simp [SortCompatible]

end Anthem.C17
