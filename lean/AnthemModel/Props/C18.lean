/-
  C18 — fixpoint simplification: idempotence of the result (unconditional), determinism
  (the model functions are pure; for the implementation this is the content of the tie).
  Termination: see `Proofs/Termination` when present; otherwise reported as not proved.
-/
import AnthemModel.Model.Simplify
namespace Anthem.C18

/-- Whenever the (bounded) fixpoint loop ends by itself with result `G`, one more pass leaves
    `G` unchanged. -/
theorem fixpoint_idempotent (f : Formula → Formula) :
    ∀ (n : Nat) (F G : Formula), applyFixpointFuel f n F = (G, true) → applyPost f G = G := by
  intro n
  induction n with
  | zero =>
    intro F G h
    simp only [applyFixpointFuel, Prod.mk.injEq, decide_eq_true_eq] at h
    obtain ⟨h1, h2⟩ := h
    rw [← h1, h2, h2]
  | succ n ih =>
    intro F G h
    simp only [applyFixpointFuel] at h
    split at h
    · rename_i heq
      simp only [Prod.mk.injEq, and_true] at h
      rw [← h, ← heq]; exact heq.symm
    · exact ih _ _ h

/-- … and hence simplifying the result again returns it unchanged, for every pass bound. -/
theorem fixpoint_stable (f : Formula → Formula) (n m : Nat) (F G : Formula)
    (h : applyFixpointFuel f n F = (G, true)) : applyFixpointFuel f m G = (G, true) := by
  have hg := fixpoint_idempotent f n F G h
  cases m with
  | zero => simp [applyFixpointFuel, hg]
  | succ m => simp [applyFixpointFuel, hg]

/-- The same, phrased for the portfolios and strategies of the command line. -/
theorem simplify_fixpoint_stable (p : Portfolio) (n m : Nat) (F G : Formula)
    (h : simplifyWith p .fixpoint n F = (G, true)) : simplifyWith p .fixpoint m G = (G, true) := by
  simp only [simplifyWith] at h ⊢
  exact fixpoint_stable _ n m F G h

/-- Determinism of the model is definitional: equal inputs give equal outputs. -/
theorem simplify_deterministic (p : Portfolio) (s : Strategy) (n : Nat) (F F' : Formula)
    (h : F = F') : simplifyWith p s n F = simplifyWith p s n F' := by rw [h]

/-- Non-vacuity: a formula on which the loop needs more than one pass and converges. -/
example : simplifyWith .intuitionistic .fixpoint 8
    (.bin .and (.bin .and (.atomic (.atom ⟨"p", []⟩)) (.atomic .tru)) (.atomic .tru)) =
    (.atomic (.atom ⟨"p", []⟩), true) := by decide

end Anthem.C18
