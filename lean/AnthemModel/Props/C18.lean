/-
  C18 — fixpoint simplification: termination for every formula and every portfolio
  (`fixpoint_terminates`, by a lexicographic measure that every rewrite decreases whenever it
  changes the formula - `Proofs/Termination`, `Proofs/TerminationClassic`), independence of the
  result from the pass bound once the loop has ended by itself, idempotence of the result,
  determinism (the model functions are pure; for the implementation this is the content of the
  tie).
-/
import AnthemModel.Model.Simplify
import AnthemModel.Proofs.TerminationClassic
namespace Anthem.C18

/-- **Termination.** For every portfolio and every formula the fixpoint loop ends by itself after
    finitely many passes: some pass leaves the formula unchanged. (The Rust loop has no bound; the
    model's bound is only the fuel of a total function, and this theorem says that some fuel is
    always enough.) -/
theorem fixpoint_terminates (p : Portfolio) (F : Formula) :
    ∃ n, (simplifyWith p .fixpoint n F).2 = true := by
  simp only [simplifyWith]
  exact applyFixpoint_terminates (compose_le4 (portfolio_le4 p)) F

/-- every pass that changes the formula strictly decreases the measure `(pw, ew, gw, bw)` -/
theorem pass_decreases (p : Portfolio) (F : Formula) :
    applyPost (compose p.rewrites) F = F ∨ Lt4 (applyPost (compose p.rewrites) F) F :=
  applyPost_le4 (compose_le4 (portfolio_le4 p)) F

/-- **The result does not depend on the pass bound**: once the loop has ended by itself with `n`
    passes allowed, every larger bound gives the same result; so "the" result of the unbounded
    Rust loop is well defined and is what the model computes with any sufficient bound. -/
theorem fixpoint_bound_irrelevant (p : Portfolio) (F : Formula) (n k : Nat) (hk : n ≤ k)
    (h : (simplifyWith p .fixpoint n F).2 = true) :
    simplifyWith p .fixpoint k F = simplifyWith p .fixpoint n F := by
  simp only [simplifyWith] at h ⊢
  exact applyFixpointFuel_stable _ n F h k hk

/-- the result exists and is unique: there is a formula `G` that every sufficient bound returns -/
theorem fixpoint_result_exists_unique (p : Portfolio) (F : Formula) :
    ∃ G n, ∀ k, n ≤ k → simplifyWith p .fixpoint k F = (G, true) := by
  obtain ⟨n, hn⟩ := fixpoint_terminates p F
  refine ⟨(simplifyWith p .fixpoint n F).1, n, fun k hk => ?_⟩
  rw [fixpoint_bound_irrelevant p F n k hk hn]
  exact Prod.ext rfl hn

/-- Whenever the (bounded) fixpoint loop ends by itself with result `G`, one more pass leaves
    `G` unchanged. -/
theorem fixpoint_idempotent (f : Formula → Formula) :
    ∀ (n : Nat) (F G : Formula), applyFixpointFuel f n F = (G, true) → applyPost f G = G := by
  intro n
  induction n with
  | zero =>
    intro F G h
    simp only [applyFixpointFuel, Prod.mk.injEq, decide_eq_true_eq] at h
    obtain ⟨h1, h2⟩ := h
    rw [← h1, h2, h2]
  | succ n ih =>
    intro F G h
    simp only [applyFixpointFuel] at h
    split at h
    · rename_i heq
      simp only [Prod.mk.injEq, and_true] at h
      rw [← h, ← heq]; exact heq.symm
    · exact ih _ _ h

/-- … and hence simplifying the result again returns it unchanged, for every pass bound. -/
theorem fixpoint_stable (f : Formula → Formula) (n m : Nat) (F G : Formula)
    (h : applyFixpointFuel f n F = (G, true)) : applyFixpointFuel f m G = (G, true) := by
  have hg := fixpoint_idempotent f n F G h
  cases m with
  | zero => simp [applyFixpointFuel, hg]
  | succ m => simp [applyFixpointFuel, hg]

/-- The same, phrased for the portfolios and strategies of the command line. -/
theorem simplify_fixpoint_stable (p : Portfolio) (n m : Nat) (F G : Formula)
    (h : simplifyWith p .fixpoint n F = (G, true)) : simplifyWith p .fixpoint m G = (G, true) := by
  simp only [simplifyWith] at h ⊢
  exact fixpoint_stable _ n m F G h

/-- Determinism of the model is definitional: equal inputs give equal outputs. -/
theorem simplify_deterministic (p : Portfolio) (s : Strategy) (n : Nat) (F F' : Formula)
    (h : F = F') : simplifyWith p s n F = simplifyWith p s n F' := by rw [h]

/-- Non-vacuity: a formula on which the loop needs more than one pass and converges. -/
example : simplifyWith .intuitionistic .fixpoint 8
    (.bin .and (.bin .and (.atomic (.atom ⟨"p", []⟩)) (.atomic .tru)) (.atomic .tru)) =
    (.atomic (.atom ⟨"p", []⟩), true) := by decide

end Anthem.C18
