/-
  C19 — simplify / eq-break / decomposition flags never change the claim verified.
-/
import AnthemModel.Proofs.Decompose
import AnthemModel.Proofs.Congruence
namespace Anthem.C19

/-- Independent decomposition: some emitted problem is refuted iff all axioms are true and some
    conjecture is false. -/
theorem independent_refutes (J : Interp) (ρ : Asg) (p : Problem) :
    (∃ P ∈ p.decomposeIndependent, Refutes J ρ P) ↔
      (∀ a ∈ p.axioms, sat J a.formula ρ) ∧ ∃ c ∈ p.conjectures, ¬ sat J c.formula ρ :=
  Anthem.independent_refutes J ρ p

/-- Sequential decomposition: the same right-hand side (the least failing conjecture). -/
theorem sequential_refutes (J : Interp) (ρ : Asg) (p : Problem) :
    (∃ P ∈ p.decomposeSequential, Refutes J ρ P) ↔
      (∀ a ∈ p.axioms, sat J a.formula ρ) ∧ ∃ c ∈ p.conjectures, ¬ sat J c.formula ρ :=
  Anthem.sequential_refutes J ρ p

/-- **Decomposition flag.** Both families are refuted by exactly the same interpretations. -/
theorem decomposition_invariant (J : Interp) (ρ : Asg) (p : Problem) (d d' : Decomposition) :
    (∃ P ∈ p.decompose d, Refutes J ρ P) ↔ (∃ P ∈ p.decompose d', Refutes J ρ P) := by
  cases d <;> cases d' <;>
    simp only [Problem.decompose, Anthem.independent_refutes, Anthem.sequential_refutes]

/-- **Eq-break flag**, formula level: the broken formulas are jointly equivalent to the original,
    classically and in HT (both worlds); in particular "all true" and "some false" are preserved,
    which is all `Refutes` looks at. -/
theorem break_equiv (I : Interp) (F : Formula) (ρ : Asg) :
    (∀ G ∈ breakEquivalencesFormula F, sat I G ρ) ↔ sat I F ρ :=
  Anthem.break_equiv I F ρ

theorem break_equiv_some_false (I : Interp) (F : Formula) (ρ : Asg) :
    (∃ G ∈ breakEquivalencesFormula F, ¬ sat I G ρ) ↔ ¬ sat I F ρ := by
  rw [← Anthem.break_equiv I F ρ]
  constructor
  · rintro ⟨G, hG, hn⟩ h; exact hn (h G hG)
  · intro h
    by_cases h' : ∃ G ∈ breakEquivalencesFormula F, ¬ sat I G ρ
    · exact h'
    · exact absurd (fun G hG => Classical.not_not.mp fun hn => h' ⟨G, hG, hn⟩) h

theorem break_equiv_ht (M : HTI) (F : Formula) (w : World) (ρ : Asg) :
    (∀ G ∈ breakEquivalencesFormula F, ht M G w ρ) ↔ ht M F w ρ :=
  Anthem.break_equiv_ht M F w ρ

/-- **General invariance principle** used for all three flags: two problems whose axioms are
    jointly equivalent and whose conjectures are "some false"-equivalent have decompositions
    refuted by the same interpretations, whatever decomposition each uses. -/
theorem families_invariant (J : Interp) (ρ : Asg) (p p' : Problem) (d d' : Decomposition)
    (hax : (∀ a ∈ p.axioms, sat J a.formula ρ) ↔ (∀ a ∈ p'.axioms, sat J a.formula ρ))
    (hcj : (∃ c ∈ p.conjectures, ¬ sat J c.formula ρ) ↔ (∃ c ∈ p'.conjectures, ¬ sat J c.formula ρ)) :
    (∃ P ∈ p.decompose d, Refutes J ρ P) ↔ (∃ P ∈ p'.decompose d', Refutes J ρ P) := by
  cases d <;> cases d' <;>
    simp only [Problem.decompose, Anthem.independent_refutes, Anthem.sequential_refutes, hax, hcj]

/-- **Simplify flag**, formula level: replacing every formula by a classically equivalent one
    changes neither "all axioms true" nor "some conjecture false" (instantiated by C07's
    portfolio theorems). -/
theorem map_equiv_all (J : Interp) (ρ : Asg) (f : Formula → Formula)
    (hf : ∀ F, ClassEquiv (f F) F) (l : List Formula) :
    (∀ F ∈ l.map f, sat J F ρ) ↔ (∀ F ∈ l, sat J F ρ) := by
  simp only [List.mem_map, forall_exists_index, and_imp, forall_apply_eq_imp_iff₂]
  exact forall_congr' fun F => imp_congr_right fun _ => hf F J ρ

/-- Non-vacuity: a two-conjecture problem on which the two decompositions really differ as lists
    of problems (and still agree on refutation by the theorems above). -/
example : (Problem.decomposeSequential ⟨"p", [⟨"a", .axiom, .tru⟩, ⟨"c0", .conjecture, .tru⟩,
      ⟨"c1", .conjecture, .fls⟩]⟩).map (·.formulas.length) = [2, 3] ∧
    (Problem.decomposeIndependent ⟨"p", [⟨"a", .axiom, .tru⟩, ⟨"c0", .conjecture, .tru⟩,
      ⟨"c1", .conjecture, .fls⟩]⟩).map (·.formulas.length) = [2, 2] := by decide

end Anthem.C19
