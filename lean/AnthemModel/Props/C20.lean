/-
  C20 — the role of each input file depends only on its extension and the argument order.
-/
import AnthemModel.Model.Files
namespace Anthem.C20

/-- membership in a bucket after pushing a list of paths -/
theorem ofPaths_specifications (paths : List String) (f : Files) :
    (paths.foldl Files.push f).specifications =
      f.specifications ++ paths.filter (fun p => bucketOf (baseName p) = .specification) := by
  induction paths generalizing f with
  | nil => simp
  | cons p ps ih =>
    rw [List.foldl_cons, ih]
    unfold Files.push
    cases h : bucketOf (baseName p) <;> simp [h]

theorem ofPaths_programs (paths : List String) (f : Files) :
    (paths.foldl Files.push f).programs =
      f.programs ++ paths.filter (fun p => bucketOf (baseName p) = .program) := by
  induction paths generalizing f with
  | nil => simp
  | cons p ps ih =>
    rw [List.foldl_cons, ih]
    unfold Files.push
    cases h : bucketOf (baseName p) <;> simp [h]

theorem ofPaths_userGuides (paths : List String) (f : Files) :
    (paths.foldl Files.push f).userGuides =
      f.userGuides ++ paths.filter (fun p => bucketOf (baseName p) = .userGuide) := by
  induction paths generalizing f with
  | nil => simp
  | cons p ps ih =>
    rw [List.foldl_cons, ih]
    unfold Files.push
    cases h : bucketOf (baseName p) <;> simp [h]

theorem ofPaths_proofOutlines (paths : List String) (f : Files) :
    (paths.foldl Files.push f).proofOutlines =
      f.proofOutlines ++ paths.filter (fun p => bucketOf (baseName p) = .proofOutline) := by
  induction paths generalizing f with
  | nil => simp
  | cons p ps ih =>
    rw [List.foldl_cons, ih]
    unfold Files.push
    cases h : bucketOf (baseName p) <;> simp [h]

/-- **Bucketing by extension.** The programs (specifications, user guides, proof outlines) are
    exactly the visited files with extension lp (spec, ug, po), in visiting order. -/
theorem bucket_by_extension (paths : List String) :
    (Files.ofPaths paths).programs = paths.filter (fun p => bucketOf (baseName p) = .program) ∧
    (Files.ofPaths paths).specifications = paths.filter (fun p => bucketOf (baseName p) = .specification) ∧
    (Files.ofPaths paths).userGuides = paths.filter (fun p => bucketOf (baseName p) = .userGuide) ∧
    (Files.ofPaths paths).proofOutlines = paths.filter (fun p => bucketOf (baseName p) = .proofOutline) := by
  unfold Files.ofPaths
  refine ⟨?_, ?_, ?_, ?_⟩
  · simpa using ofPaths_programs paths {}
  · simpa using ofPaths_specifications paths {}
  · simpa using ofPaths_userGuides paths {}
  · simpa using ofPaths_proofOutlines paths {}

/-- **.spec / .ug / .po anywhere.** If exactly one visited file has a given one of these
    extensions, it is chosen for that role whatever the order of the visited files. -/
theorem spec_anywhere (paths paths' : List String) (h : paths.Perm paths') (s : String)
    (hs : paths.filter (fun p => bucketOf (baseName p) = .specification) = [s]) :
    (Files.ofPaths paths').specification = some (true, s) := by
  have h1 := (bucket_by_extension paths').2.1
  have hp : (paths.filter (fun p => bucketOf (baseName p) = .specification)).Perm
      (paths'.filter (fun p => bucketOf (baseName p) = .specification)) := h.filter _
  rw [hs] at hp
  have : paths'.filter (fun p => bucketOf (baseName p) = .specification) = [s] :=
    List.perm_singleton.mp hp.symm
  simp [Files.specification, h1, this]

theorem ug_anywhere (paths paths' : List String) (h : paths.Perm paths') (s : String)
    (hs : paths.filter (fun p => bucketOf (baseName p) = .userGuide) = [s]) :
    (Files.ofPaths paths').userGuide = some s := by
  have h1 := (bucket_by_extension paths').2.2.1
  have hp := h.filter (fun p => bucketOf (baseName p) = .userGuide)
  rw [hs] at hp
  simp [Files.userGuide, h1, List.perm_singleton.mp hp.symm]

theorem po_anywhere (paths paths' : List String) (h : paths.Perm paths') (s : String)
    (hs : paths.filter (fun p => bucketOf (baseName p) = .proofOutline) = [s]) :
    (Files.ofPaths paths').proofOutline = some s := by
  have h1 := (bucket_by_extension paths').2.2.2
  have hp := h.filter (fun p => bucketOf (baseName p) = .proofOutline)
  rw [hs] at hp
  simp [Files.proofOutline, h1, List.perm_singleton.mp hp.symm]

/-- **.lp roles.** The first and second `.lp` file in visiting order are left and right; for
    external equivalence the first is the specification iff there is no `.spec` file, and the
    program under verification is the second resp. the first. -/
theorem lp_roles (paths : List String) :
    let lps := paths.filter (fun p => bucketOf (baseName p) = .program)
    let specs := paths.filter (fun p => bucketOf (baseName p) = .specification)
    (Files.ofPaths paths).left = lps.head? ∧ (Files.ofPaths paths).right = lps[1]? ∧
    (Files.ofPaths paths).program = (if specs.isEmpty then lps[1]? else lps.head?) ∧
    (specs = [] → (Files.ofPaths paths).specification = lps.head?.map fun p => (false, p)) := by
  obtain ⟨h1, h2, _, _⟩ := bucket_by_extension paths
  refine ⟨by simp [Files.left, h1], by simp [Files.right, h1], by simp [Files.program, h1, h2], ?_⟩
  intro hs
  simp [Files.specification, h1, h2, hs]

/-- **Swapping the two programs** swaps left and right. -/
theorem swap_programs (a b : String) (ha : bucketOf (baseName a) = .program)
    (hb : bucketOf (baseName b) = .program) :
    (Files.ofPaths [a, b]).left = (Files.ofPaths [b, a]).right ∧
    (Files.ofPaths [a, b]).right = (Files.ofPaths [b, a]).left := by
  simp [Files.ofPaths, Files.push, ha, hb, Files.left, Files.right]

/-- `Path::extension` corner cases (kernel-evaluated). -/
example : extensionOf "a.lp" = some "lp" ∧ extensionOf ".lp" = none ∧ extensionOf "a.b.spec" = some "spec"
    ∧ extensionOf "lp" = none ∧ extensionOf "a." = some "" ∧ extensionOf "..ug" = some "ug" := by decide

/-! ## the walk: which files are visited, and in which order

`Files::sort` visits every argument in the order given (`WalkDir::new(arg).sort_by_file_name()`), a directory's entries by
name, depth first; only regular files are kept. `walkPaths` is that walk on an abstract tree. -/

theorem walk_file (pre n : String) : walkPaths pre (.file n) = [pre ++ n] := by
  rw [walkPaths]

/-- a symbolic link is never visited as a file - named as an argument or found inside a directory -/
theorem walk_link (pre n : String) : walkPaths pre (.link n) = [] := by
  rw [walkPaths]

/-- a directory: its entries in name order, depth first, under the directory's path -/
theorem walk_dir (pre n : String) (cs : List FTree) :
    walkPaths pre (.dir n cs) = (sortTrees cs).flatMap (walkPaths (pre ++ n ++ "/")) := by
  rw [walkPaths]
  generalize sortTrees cs = l
  induction l with
  | nil => rfl
  | cons x xs ih => simp [List.attach_cons, List.flatMap_cons, List.flatMap_map, ih]

/-- **Argument order.** The files of the first arguments come before the files of the later ones, whatever their names
    (no sorting across arguments). -/
theorem walk_arguments_in_order (pre : String) (a b : List FTree) :
    (a ++ b).flatMap (walkPaths pre) = a.flatMap (walkPaths pre) ++ b.flatMap (walkPaths pre) :=
  List.flatMap_append

/-- **Links play no role.** Removing the symbolic links from a list of arguments (or of directory entries) does not change
    the files visited. -/
theorem links_contribute_nothing (pre : String) : ∀ l : List FTree,
    (l.filter (fun t => !t.isLink)).flatMap (walkPaths pre) = l.flatMap (walkPaths pre) := by
  intro l
  induction l with
  | nil => rfl
  | cons t ts ih =>
    cases t with
    | file n =>
      have h : (FTree.file n).isLink = false := rfl
      rw [List.filter_cons]
      simp only [h, Bool.not_false, if_true, List.flatMap_cons, ih]
    | dir n cs =>
      have h : (FTree.dir n cs).isLink = false := rfl
      rw [List.filter_cons]
      simp only [h, Bool.not_false, if_true, List.flatMap_cons, ih]
    | link n =>
      have h : (FTree.link n).isLink = true := rfl
      rw [List.filter_cons]
      simp only [h, Bool.not_true, List.flatMap_cons, ih, walk_link, List.nil_append]
      exact ih

theorem links_in_a_directory_contribute_nothing (pre n : String) (cs : List FTree) :
    walkPaths pre (.dir n cs) = ((sortTrees cs).filter (fun t => !t.isLink)).flatMap (walkPaths (pre ++ n ++ "/")) := by
  rw [walk_dir, links_contribute_nothing]

/-- non-vacuity / the shape C20-13 needs: `verify d/x.lp link.lp d` with `link.lp` a symbolic link and `d` holding `b.lp`,
    a link `a.lp` and `x.lp`: the programs are `d/x.lp` (named first) and then `d/b.lp`, `d/x.lp` from the walk of `d` -/
example : (Files.ofPaths ([FTree.file "k.lp", .link "link.lp", .dir "d" [.file "x.lp", .link "a.lp", .file "b.lp"]].flatMap (walkPaths ""))).programs
    = ["k.lp", "d/b.lp", "d/x.lp"] := by
  simp [walk_file, walk_link, walk_dir, sortTrees, insertTree, FTree.name, Files.ofPaths, Files.push, bucketOf, extensionOf, baseName]
  decide

end Anthem.C20
