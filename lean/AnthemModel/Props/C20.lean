/-
  C20 — the role of each input file depends only on its extension and the argument order.
-/
import AnthemModel.Model.Files
namespace Anthem.C20

/-- membership in a bucket after pushing a list of paths -/
theorem ofPaths_specifications (paths : List String) (f : Files) :
    (paths.foldl Files.push f).specifications =
      f.specifications ++ paths.filter (fun p => bucketOf (baseName p) = .specification) := by
  induction paths generalizing f with
  | nil => simp
  | cons p ps ih =>
    rw [List.foldl_cons, ih]
    unfold Files.push
    cases h : bucketOf (baseName p) <;> simp [h]

theorem ofPaths_programs (paths : List String) (f : Files) :
    (paths.foldl Files.push f).programs =
      f.programs ++ paths.filter (fun p => bucketOf (baseName p) = .program) := by
  induction paths generalizing f with
  | nil => simp
  | cons p ps ih =>
    rw [List.foldl_cons, ih]
    unfold Files.push
    cases h : bucketOf (baseName p) <;> simp [h]

theorem ofPaths_userGuides (paths : List String) (f : Files) :
    (paths.foldl Files.push f).userGuides =
      f.userGuides ++ paths.filter (fun p => bucketOf (baseName p) = .userGuide) := by
  induction paths generalizing f with
  | nil => simp
  | cons p ps ih =>
    rw [List.foldl_cons, ih]
    unfold Files.push
    cases h : bucketOf (baseName p) <;> simp [h]

theorem ofPaths_proofOutlines (paths : List String) (f : Files) :
    (paths.foldl Files.push f).proofOutlines =
      f.proofOutlines ++ paths.filter (fun p => bucketOf (baseName p) = .proofOutline) := by
  induction paths generalizing f with
  | nil => simp
  | cons p ps ih =>
    rw [List.foldl_cons, ih]
    unfold Files.push
    cases h : bucketOf (baseName p) <;> simp [h]

/-- **Bucketing by extension.** The programs (specifications, user guides, proof outlines) are
    exactly the visited files with extension lp (spec, ug, po), in visiting order. -/
theorem bucket_by_extension (paths : List String) :
    (Files.ofPaths paths).programs = paths.filter (fun p => bucketOf (baseName p) = .program) ∧
    (Files.ofPaths paths).specifications = paths.filter (fun p => bucketOf (baseName p) = .specification) ∧
    (Files.ofPaths paths).userGuides = paths.filter (fun p => bucketOf (baseName p) = .userGuide) ∧
    (Files.ofPaths paths).proofOutlines = paths.filter (fun p => bucketOf (baseName p) = .proofOutline) := by
  unfold Files.ofPaths
  refine ⟨?_, ?_, ?_, ?_⟩
  · simpa using ofPaths_programs paths {}
  · simpa using ofPaths_specifications paths {}
  · simpa using ofPaths_userGuides paths {}
  · simpa using ofPaths_proofOutlines paths {}

/-- **.spec / .ug / .po anywhere.** If exactly one visited file has a given one of these
    extensions, it is chosen for that role whatever the order of the visited files. -/
theorem spec_anywhere (paths paths' : List String) (h : paths.Perm paths') (s : String)
    (hs : paths.filter (fun p => bucketOf (baseName p) = .specification) = [s]) :
    (Files.ofPaths paths').specification = some (true, s) := by
  have h1 := (bucket_by_extension paths').2.1
  have hp : (paths.filter (fun p => bucketOf (baseName p) = .specification)).Perm
      (paths'.filter (fun p => bucketOf (baseName p) = .specification)) := h.filter _
  rw [hs] at hp
  have : paths'.filter (fun p => bucketOf (baseName p) = .specification) = [s] :=
    List.perm_singleton.mp hp.symm
  simp [Files.specification, h1, this]

theorem ug_anywhere (paths paths' : List String) (h : paths.Perm paths') (s : String)
    (hs : paths.filter (fun p => bucketOf (baseName p) = .userGuide) = [s]) :
    (Files.ofPaths paths').userGuide = some s := by
  have h1 := (bucket_by_extension paths').2.2.1
  have hp := h.filter (fun p => bucketOf (baseName p) = .userGuide)
  rw [hs] at hp
  simp [Files.userGuide, h1, List.perm_singleton.mp hp.symm]

theorem po_anywhere (paths paths' : List String) (h : paths.Perm paths') (s : String)
    (hs : paths.filter (fun p => bucketOf (baseName p) = .proofOutline) = [s]) :
    (Files.ofPaths paths').proofOutline = some s := by
  have h1 := (bucket_by_extension paths').2.2.2
  have hp := h.filter (fun p => bucketOf (baseName p) = .proofOutline)
  rw [hs] at hp
  simp [Files.proofOutline, h1, List.perm_singleton.mp hp.symm]

/-- **.lp roles.** The first and second `.lp` file in visiting order are left and right; for
    external equivalence the first is the specification iff there is no `.spec` file, and the
    program under verification is the second resp. the first. -/
theorem lp_roles (paths : List String) :
    let lps := paths.filter (fun p => bucketOf (baseName p) = .program)
    let specs := paths.filter (fun p => bucketOf (baseName p) = .specification)
    (Files.ofPaths paths).left = lps.head? ∧ (Files.ofPaths paths).right = lps[1]? ∧
    (Files.ofPaths paths).program = (if specs.isEmpty then lps[1]? else lps.head?) ∧
    (specs = [] → (Files.ofPaths paths).specification = lps.head?.map fun p => (false, p)) := by
  obtain ⟨h1, h2, _, _⟩ := bucket_by_extension paths
  refine ⟨by simp [Files.left, h1], by simp [Files.right, h1], by simp [Files.program, h1, h2], ?_⟩
  intro hs
  simp [Files.specification, h1, h2, hs]

/-- **Swapping the two programs** swaps left and right. -/
theorem swap_programs (a b : String) (ha : bucketOf (baseName a) = .program)
    (hb : bucketOf (baseName b) = .program) :
    (Files.ofPaths [a, b]).left = (Files.ofPaths [b, a]).right ∧
    (Files.ofPaths [a, b]).right = (Files.ofPaths [b, a]).left := by
  simp [Files.ofPaths, Files.push, ha, hb, Files.left, Files.right]

/-- `Path::extension` corner cases (kernel-evaluated). -/
example : extensionOf "a.lp" = some "lp" ∧ extensionOf ".lp" = none ∧ extensionOf "a.b.spec" = some "spec"
    ∧ extensionOf "lp" = none ∧ extensionOf "a." = some "" ∧ extensionOf "..ug" = some "ug" := by decide

end Anthem.C20
