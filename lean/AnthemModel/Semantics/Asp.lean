/-
  Reference semantics of mini-gringo (DESIGN.md 3.4), written without any first-order formula:
  value sets of terms, satisfaction of body atoms and heads at a world of an HT interpretation,
  satisfaction of rules and programs, stable models with input predicates.
-/
import AnthemModel.Semantics.Fol
import AnthemModel.Syntax.Asp
namespace Anthem
open Asp

/-- A substitution of precomputed terms (domain values) for the variables of a rule. -/
abbrev Subst := String → Dom

def Asp.Pre.toDom : Pre → Dom
  | .inf => .inf
  | .num n => .num n
  | .sym s => .sym s
  | .sup => .sup

/-- `vals σ t d`: `d` is one of the values of `t` under `σ`. Arithmetic is defined on numerals
    only; division and modulo only for a positive divisor (the deviation from clingo documented
    in tau_star.rs); an interval has every integer between its bounds. -/
def vals (σ : Subst) : Term → Dom → Prop
  | .pre p, d => d = p.toDom
  | .var x, d => d = σ x
  | .neg t, d => ∃ n, vals σ t (.num n) ∧ d = .num (0 - n)
  | .bin op l r, d =>
    ∃ a b, vals σ l (.num a) ∧ vals σ r (.num b) ∧
      (match op with
        | .add => d = .num (a + b)
        | .sub => d = .num (a - b)
        | .mul => d = .num (a * b)
        | .div => 0 < b ∧ d = .num (a / b)
        | .mod => 0 < b ∧ d = .num (a % b)
        | .interval => ∃ k, a ≤ k ∧ k ≤ b ∧ d = .num k)

/-- tuples of values of a list of terms -/
def valsList (σ : Subst) : List Term → List Dom → Prop
  | [], [] => True
  | t :: ts, d :: ds => vals σ t d ∧ valsList σ ts ds
  | _, _ => False

def Asp.Rel.holds : Asp.Rel → Dom → Dom → Prop
  | .eq, a, b => a = b
  | .ne, a, b => a ≠ b
  | .lt, a, b => Dom.lt a b
  | .le, a, b => Dom.le a b
  | .gt, a, b => Dom.lt b a
  | .ge, a, b => Dom.le b a

/-- A body atom at world `w`: a positive literal needs *some* value tuple in `p` at `w`;
    `not` reads `p` at `there`; a comparison needs some pair of values in the relation. -/
def bodyAtomSat (M : HTI) (w : World) (σ : Subst) : BodyAtom → Prop
  | .lit ⟨.pos, a⟩ => ∃ ds, valsList σ a.args ds ∧ M.at w a.pred ds
  | .lit ⟨.neg, a⟩ => ∃ ds, valsList σ a.args ds ∧ ¬ M.t a.pred ds
  | .lit ⟨.negneg, a⟩ => ∃ ds, valsList σ a.args ds ∧ M.t a.pred ds
  | .cmp rel l r => ∃ a b, vals σ l a ∧ vals σ r b ∧ rel.holds a b

def bodySat (M : HTI) (w : World) (σ : Subst) (b : List BodyAtom) : Prop :=
  ∀ f ∈ b, bodyAtomSat M w σ f

/-- A head at world `w`: a basic head needs *every* value tuple in `p`; a choice head needs every
    tuple in `p` at `w` or outside `p` at `there`; `#false` never holds. -/
def headSat (M : HTI) (w : World) (σ : Subst) : Head → Prop
  | .basic a => ∀ ds, valsList σ a.args ds → M.at w a.pred ds
  | .choice a => ∀ ds, valsList σ a.args ds → M.at w a.pred ds ∨ ¬ M.t a.pred ds
  | .falsity => False

/-- HT satisfaction of a rule at world `w`: for every substitution, body implies head at `w`
    and at `there`. -/
def ruleSat (M : HTI) (w : World) (r : Rule) : Prop :=
  ∀ σ : Subst, (bodySat M w σ r.body → headSat M w σ r.head) ∧
    (bodySat M .there σ r.body → headSat M .there σ r.head)

def progSat (M : HTI) (w : World) (p : Program) : Prop := ∀ r ∈ p, ruleSat M w r

/-- `T` (with function constants `fc`) is a stable model of `p` with input predicates `ins`:
    `(T,T)` satisfies `p` and no `(H,T)` with `H ⊊ T`, `H` agreeing with `T` on the inputs, does. -/
def Stable (p : Program) (ins : List Pred) (T : PredI) (fc : FcI) : Prop :=
  progSat ⟨T, T, fc⟩ .there p ∧
  ∀ H : PredI, (∀ q a, H q a → T q a) →
    (∀ q a, (⟨q, a.length⟩ : Pred) ∈ ins → (H q a ↔ T q a)) →
    progSat ⟨H, T, fc⟩ .here p → ∀ q a, T q a → H q a

end Anthem
