/-
  The standard domain of DESIGN.md 3.2: #inf < integers < symbolic constants < #sup.
-/
import AnthemModel.Syntax.Fol
namespace Anthem

inductive Dom
  | inf
  | num (z : Int)
  | sym (s : String)
  | sup
  deriving DecidableEq, Repr, Inhabited

namespace Dom

/-- The total order `#inf < numerals (by ≤ on Int) < symbols (lexicographic) < #sup`. -/
def le : Dom → Dom → Prop
  | .inf, _ => True
  | .num _, .inf => False
  | .num a, .num b => a ≤ b
  | .num _, .sym _ => True
  | .num _, .sup => True
  | .sym _, .inf => False
  | .sym _, .num _ => False
  | .sym a, .sym b => a ≤ b
  | .sym _, .sup => True
  | .sup, .sup => True
  | .sup, _ => False

instance : DecidableRel le := fun a b => by
  cases a <;> cases b <;> simp only [le] <;> infer_instance

def lt (a b : Dom) : Prop := ¬ le b a

instance : DecidableRel lt := fun a b => by unfold lt; infer_instance

theorem le_refl (a : Dom) : le a a := by
  cases a <;> simp [le]

theorem le_total (a b : Dom) : le a b ∨ le b a := by
  cases a <;> cases b <;> simp [le]
  · exact Int.le_total _ _
  · exact String.le_total _ _

theorem le_trans {a b c : Dom} : le a b → le b c → le a c := by
  cases a <;> cases b <;> cases c <;> simp [le]
  · exact Int.le_trans
  · exact String.le_trans

theorem le_antisymm {a b : Dom} : le a b → le b a → a = b := by
  cases a <;> cases b <;> simp [le]
  · exact Int.le_antisymm
  · exact String.le_antisymm

theorem lt_irrefl (a : Dom) : ¬ lt a a := by simp [lt, le_refl]

theorem lt_iff_le_and_ne {a b : Dom} : lt a b ↔ le a b ∧ a ≠ b := by
  unfold lt
  constructor
  · intro h
    refine ⟨(le_total a b).resolve_right h, ?_⟩
    intro e; subst e; exact h (le_refl a)
  · intro ⟨h1, h2⟩ h3; exact h2 (le_antisymm h1 h3)

def toInt : Dom → Int
  | .num z => z
  | _ => 0

def toStr : Dom → String
  | .sym s => s
  | _ => ""

/-- Sort membership: every value is general; integers are the numerals; symbols the symbolic constants. -/
def inSort : Srt → Dom → Prop
  | .general, _ => True
  | .integer, .num _ => True
  | .integer, _ => False
  | .symbol, .sym _ => True
  | .symbol, _ => False

instance (s : Srt) (d : Dom) : Decidable (inSort s d) := by
  cases s <;> cases d <;> simp only [inSort] <;> infer_instance

theorem inSort_integer {d : Dom} : inSort .integer d ↔ ∃ z, d = .num z := by
  cases d <;> simp [inSort]

theorem inSort_symbol {d : Dom} : inSort .symbol d ↔ ∃ s, d = .sym s := by
  cases d <;> simp [inSort]

end Dom

/-- Meaning of the six relation symbols in the total order. -/
def Rel.holds : Rel → Dom → Dom → Prop
  | .eq, a, b => a = b
  | .ne, a, b => a ≠ b
  | .gt, a, b => Dom.lt b a
  | .lt, a, b => Dom.lt a b
  | .ge, a, b => Dom.le b a
  | .le, a, b => Dom.le a b

instance (r : Rel) (a b : Dom) : Decidable (r.holds a b) := by
  cases r <;> simp only [Rel.holds] <;> infer_instance

end Anthem
