/-
  Classical (Tarski) and here-and-there satisfaction for the target language (DESIGN.md 3.3).

  Assignments are untyped maps `Var → Dom`; the *use sites* read an integer variable through
  `Dom.toInt` and a symbol variable through `Dom.toStr`, and every quantifier ranges over the
  values of the bound variable's sort. Hence a free variable `X$i` always denotes an integer and
  no global well-sortedness hypothesis is needed.
-/
import AnthemModel.Semantics.Domain
namespace Anthem

abbrev Asg := Var → Dom
abbrev PredI := String → List Dom → Prop
abbrev FcI := String → Srt → Dom

def Asg.set (ρ : Asg) (v : Var) (d : Dom) : Asg := fun w => if w = v then d else ρ w

@[simp] theorem Asg.set_same (ρ : Asg) (v : Var) (d : Dom) : (ρ.set v d) v = d := by
  simp [Asg.set]

theorem Asg.set_other (ρ : Asg) {v w : Var} (d : Dom) (h : w ≠ v) : (ρ.set v d) w = ρ w := by
  simp [Asg.set, h]

structure Interp where
  pred : PredI
  fc : FcI

/-- An HT interpretation: two predicate interpretations over shared function constants.
    `Sub` (here ⊆ there) is a separate hypothesis, used only where needed. -/
structure HTI where
  h : PredI
  t : PredI
  fc : FcI

def HTI.Sub (M : HTI) : Prop := ∀ p a, M.h p a → M.t p a

inductive World | here | there
  deriving DecidableEq, Repr

def HTI.at (M : HTI) : World → PredI
  | .here => M.h
  | .there => M.t

def IOp.eval : IOp → Int → Int → Int
  | .add, a, b => a + b
  | .sub, a, b => a - b
  | .mul, a, b => a * b

def ITerm.eval (fc : FcI) (ρ : Asg) : ITerm → Int
  | .num n => n
  | .fc c => (fc c .integer).toInt
  | .var x => (ρ ⟨x, .integer⟩).toInt
  | .neg t => - t.eval fc ρ
  | .bin op l r => op.eval (l.eval fc ρ) (r.eval fc ρ)

def STerm.eval (fc : FcI) (ρ : Asg) : STerm → String
  | .sym s => s
  | .fc c => (fc c .symbol).toStr
  | .var x => (ρ ⟨x, .symbol⟩).toStr

def GTerm.eval (fc : FcI) (ρ : Asg) : GTerm → Dom
  | .inf => .inf
  | .sup => .sup
  | .fc c => fc c .general
  | .var x => ρ ⟨x, .general⟩
  | .int t => .num (t.eval fc ρ)
  | .symb t => .sym (t.eval fc ρ)

/-- A chain `t0 ρ1 t1 ρ2 t2 …` is the conjunction of the consecutive pairs. -/
def cmpChain (fc : FcI) (ρ : Asg) : Dom → List Guard → Prop
  | _, [] => True
  | d, g :: gs => g.rel.holds d (g.term.eval fc ρ) ∧ cmpChain fc ρ (g.term.eval fc ρ) gs

def AtomicF.sat (P : PredI) (fc : FcI) (ρ : Asg) : AtomicF → Prop
  | .tru => True
  | .fls => False
  | .atom a => P a.pred (a.args.map (GTerm.eval fc ρ))
  | .cmp t gs => cmpChain fc ρ (t.eval fc ρ) gs

/-- Sequential binding of a variable list, universal. -/
def bindAll : List Var → (Asg → Prop) → Asg → Prop
  | [], P, ρ => P ρ
  | v :: vs, P, ρ => ∀ d : Dom, d.inSort v.sort → bindAll vs P (ρ.set v d)

/-- Sequential binding of a variable list, existential. -/
def bindEx : List Var → (Asg → Prop) → Asg → Prop
  | [], P, ρ => P ρ
  | v :: vs, P, ρ => ∃ d : Dom, d.inSort v.sort ∧ bindEx vs P (ρ.set v d)

def sat (I : Interp) : Formula → Asg → Prop
  | .atomic a, ρ => a.sat I.pred I.fc ρ
  | .not f, ρ => ¬ sat I f ρ
  | .bin .and l r, ρ => sat I l ρ ∧ sat I r ρ
  | .bin .or l r, ρ => sat I l ρ ∨ sat I r ρ
  | .bin .imp l r, ρ => sat I l ρ → sat I r ρ
  | .bin .rimp l r, ρ => sat I r ρ → sat I l ρ
  | .bin .iff l r, ρ => (sat I l ρ ↔ sat I r ρ)
  | .quant .all vs f, ρ => bindAll vs (sat I f) ρ
  | .quant .ex vs f, ρ => bindEx vs (sat I f) ρ

/-- Here-and-there satisfaction. Implication at world `w` is checked at `w` and at `there`
    (at `w = there` both conjuncts coincide). -/
def ht (M : HTI) : Formula → World → Asg → Prop
  | .atomic a, w, ρ => a.sat (M.at w) M.fc ρ
  | .not f, _, ρ => ¬ ht M f .there ρ
  | .bin .and l r, w, ρ => ht M l w ρ ∧ ht M r w ρ
  | .bin .or l r, w, ρ => ht M l w ρ ∨ ht M r w ρ
  | .bin .imp l r, w, ρ => (ht M l w ρ → ht M r w ρ) ∧ (ht M l .there ρ → ht M r .there ρ)
  | .bin .rimp l r, w, ρ => (ht M r w ρ → ht M l w ρ) ∧ (ht M r .there ρ → ht M l .there ρ)
  | .bin .iff l r, w, ρ =>
      ((ht M l w ρ → ht M r w ρ) ∧ (ht M l .there ρ → ht M r .there ρ)) ∧
      ((ht M r w ρ → ht M l w ρ) ∧ (ht M r .there ρ → ht M l .there ρ))
  | .quant .all vs f, w, ρ => bindAll vs (ht M f w) ρ
  | .quant .ex vs f, w, ρ => bindEx vs (ht M f w) ρ

def HTEquiv (F G : Formula) : Prop := ∀ (M : HTI), M.Sub → ∀ w ρ, ht M F w ρ ↔ ht M G w ρ
def ClassEquiv (F G : Formula) : Prop := ∀ (I : Interp) ρ, sat I F ρ ↔ sat I G ρ

theorem bindAll_congr {vs : List Var} {P Q : Asg → Prop} (h : ∀ ρ, P ρ ↔ Q ρ) :
    ∀ ρ, bindAll vs P ρ ↔ bindAll vs Q ρ := by
  induction vs with
  | nil => simpa [bindAll] using h
  | cons v vs ih =>
    intro ρ; simp only [bindAll]
    exact forall_congr' fun d => imp_congr_right fun _ => ih _

theorem bindEx_congr {vs : List Var} {P Q : Asg → Prop} (h : ∀ ρ, P ρ ↔ Q ρ) :
    ∀ ρ, bindEx vs P ρ ↔ bindEx vs Q ρ := by
  induction vs with
  | nil => simpa [bindEx] using h
  | cons v vs ih =>
    intro ρ; simp only [bindEx]
    exact exists_congr fun d => and_congr_right fun _ => ih _

theorem bindAll_mono {vs : List Var} {P Q : Asg → Prop} (h : ∀ ρ, P ρ → Q ρ) :
    ∀ ρ, bindAll vs P ρ → bindAll vs Q ρ := by
  induction vs with
  | nil => simpa [bindAll] using h
  | cons v vs ih =>
    intro ρ; simp only [bindAll]
    exact fun H d hd => ih _ (H d hd)

theorem bindEx_mono {vs : List Var} {P Q : Asg → Prop} (h : ∀ ρ, P ρ → Q ρ) :
    ∀ ρ, bindEx vs P ρ → bindEx vs Q ρ := by
  induction vs with
  | nil => simpa [bindEx] using h
  | cons v vs ih =>
    intro ρ; simp only [bindEx]
    exact fun ⟨d, hd, H⟩ => ⟨d, hd, ih _ H⟩

/-- Persistence: truth at `here` implies truth at `there` (the only use of `H ⊆ T`). -/
theorem ht_persist (M : HTI) (hs : M.Sub) : ∀ (F : Formula) (ρ : Asg), ht M F .here ρ → ht M F .there ρ := by
  intro F
  induction F with
  | atomic a =>
    intro ρ
    cases a <;> simp [ht, AtomicF.sat, HTI.at]
    exact hs _ _
  | not f _ => intro ρ; simp [ht]
  | bin c l r ihl ihr =>
    intro ρ
    cases c <;> simp only [ht]
    · exact fun ⟨a, b⟩ => ⟨ihl _ a, ihr _ b⟩
    · exact fun h => h.elim (fun a => Or.inl (ihl _ a)) (fun b => Or.inr (ihr _ b))
    · exact fun ⟨_, b⟩ => ⟨b, b⟩
    · exact fun ⟨_, b⟩ => ⟨b, b⟩
    · exact fun ⟨⟨_, b⟩, ⟨_, d⟩⟩ => ⟨⟨b, b⟩, ⟨d, d⟩⟩
  | quant q vs f ih =>
    intro ρ
    cases q <;> simp only [ht]
    · exact bindAll_mono ih ρ
    · exact bindEx_mono ih ρ

/-- At world `there`, HT satisfaction is classical satisfaction in `T`. -/
theorem ht_there_eq_sat (M : HTI) : ∀ (F : Formula) (ρ : Asg),
    ht M F .there ρ ↔ sat ⟨M.t, M.fc⟩ F ρ := by
  intro F
  induction F with
  | atomic a => intro ρ; simp [ht, sat, HTI.at]
  | not f ih => intro ρ; simp [ht, sat, ih]
  | bin c l r ihl ihr =>
    intro ρ
    cases c <;> simp only [ht, sat, ihl, ihr, and_self]
    exact ⟨fun ⟨a, b⟩ => ⟨a, b⟩, fun ⟨a, b⟩ => ⟨a, b⟩⟩
  | quant q vs f ih =>
    intro ρ
    cases q <;> simp only [ht, sat]
    · exact bindAll_congr ih ρ
    · exact bindEx_congr ih ρ

end Anthem
