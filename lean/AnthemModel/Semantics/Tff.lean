/-
  Semantics of the TFF trees of Model/Tff.lean in an arbitrary many-sorted structure (`$int` is the
  integers, as TFF fixes it; `general` and `symbol` are carrier types of the structure), and the
  *standard* structure that an anthem interpretation induces.
-/
import AnthemModel.Model.Tff
import AnthemModel.Semantics.Fol
namespace Anthem

structure TStruct where
  G : Type
  S : Type
  ofInt : Int → G
  ofSym : S → G
  inf : G
  sup : G
  /-- `p__less__`, `p__less_equal__`, `p__greater__`, `p__greater_equal__` (only used at lt/le/gt/ge) -/
  rel : Rel → G → G → Prop
  /-- `p__is_integer__`, `p__is_symbolic__` (preamble only) -/
  isInt : G → Prop
  isSym : G → Prop
  pred : String → List G → Prop
  symc : String → S
  phG : String → G
  phI : String → Int
  phS : String → S

structure TAsg (M : TStruct) where
  g : String → M.G
  i : String → Int
  s : String → M.S

def TAsg.setG {M : TStruct} (θ : TAsg M) (x : String) (d : M.G) : TAsg M :=
  { θ with g := fun y => if y = x then d else θ.g y }
def TAsg.setI {M : TStruct} (θ : TAsg M) (x : String) (d : Int) : TAsg M :=
  { θ with i := fun y => if y = x then d else θ.i y }
def TAsg.setS {M : TStruct} (θ : TAsg M) (x : String) (d : M.S) : TAsg M :=
  { θ with s := fun y => if y = x then d else θ.s y }

/-- `$less`, `$lesseq`, … and `=`, `!=` on `$int` -/
def Rel.holdsInt : Rel → Int → Int → Prop
  | .eq, a, b => a = b
  | .ne, a, b => a ≠ b
  | .gt, a, b => b < a
  | .lt, a, b => a < b
  | .ge, a, b => b ≤ a
  | .le, a, b => a ≤ b

def TInt.eval (M : TStruct) (θ : TAsg M) : TInt → Int
  | .num n => (n : Int)
  | .var v => θ.i v
  | .ph c => M.phI c
  | .uminus t => - t.eval M θ
  | .bin op l r => op.eval (l.eval M θ) (r.eval M θ)

def TSym.eval (M : TStruct) (θ : TAsg M) : TSym → M.S
  | .sym s => M.symc s
  | .ph c => M.phS c
  | .var v => θ.s v

def TGen.eval (M : TStruct) (θ : TAsg M) : TGen → M.G
  | .inf => M.inf
  | .sup => M.sup
  | .ph c => M.phG c
  | .var v => θ.g v
  | .ofInt t => M.ofInt (t.eval M θ)
  | .ofSym t => M.ofSym (t.eval M θ)

def TAtom.sat (M : TStruct) (θ : TAsg M) : TAtom → Prop
  | .tru => True
  | .fls => False
  | .pred p args => M.pred p (args.map (TGen.eval M θ))
  | .relI r l rr => r.holdsInt (l.eval M θ) (rr.eval M θ)
  | .eqS r l rr =>
    match r with
    | .ne => l.eval M θ ≠ rr.eval M θ
    | _ => l.eval M θ = rr.eval M θ
  | .relG r l rr =>
    match r with
    | .eq => l.eval M θ = rr.eval M θ
    | .ne => l.eval M θ ≠ rr.eval M θ
    | r => M.rel r (l.eval M θ) (rr.eval M θ)

def tbindAll (M : TStruct) : List Var → (TAsg M → Prop) → TAsg M → Prop
  | [], P, θ => P θ
  | v :: vs, P, θ =>
    match v.sort with
    | .general => ∀ d : M.G, tbindAll M vs P (θ.setG v.name d)
    | .integer => ∀ d : Int, tbindAll M vs P (θ.setI v.name d)
    | .symbol => ∀ d : M.S, tbindAll M vs P (θ.setS v.name d)

def tbindEx (M : TStruct) : List Var → (TAsg M → Prop) → TAsg M → Prop
  | [], P, θ => P θ
  | v :: vs, P, θ =>
    match v.sort with
    | .general => ∃ d : M.G, tbindEx M vs P (θ.setG v.name d)
    | .integer => ∃ d : Int, tbindEx M vs P (θ.setI v.name d)
    | .symbol => ∃ d : M.S, tbindEx M vs P (θ.setS v.name d)

def TForm.sat (M : TStruct) : TForm → TAsg M → Prop
  | .chain as, θ => ∀ a ∈ as, a.sat M θ
  | .not f, θ => ¬ f.sat M θ
  | .bin .and l r, θ => l.sat M θ ∧ r.sat M θ
  | .bin .or l r, θ => l.sat M θ ∨ r.sat M θ
  | .bin .imp l r, θ => l.sat M θ → r.sat M θ
  | .bin .rimp l r, θ => r.sat M θ → l.sat M θ
  | .bin .iff l r, θ => (l.sat M θ ↔ r.sat M θ)
  | .quant .all vs f, θ => tbindAll M vs (f.sat M) θ
  | .quant .ex vs f, θ => tbindEx M vs (f.sat M) θ

/-- the standard structure induced by an anthem interpretation -/
def stdStruct (I : Interp) : TStruct where
  G := Dom
  S := String
  ofInt := .num
  ofSym := .sym
  inf := .inf
  sup := .sup
  rel := Rel.holds
  isInt := fun x => ∃ n : Int, x = .num n
  isSym := fun x => ∃ s : String, x = .sym s
  pred := I.pred
  symc := id
  phG := fun c => I.fc c .general
  phI := fun c => (I.fc c .integer).toInt
  phS := fun c => (I.fc c .symbol).toStr

/-- The 15 axioms of `standard_interpretation.p`, read in an arbitrary TFF structure (in the order of
    the file; the file's text is tied to Model/TptpFmt.lean `standardPreamble` by the problem-text
    correspondence). -/
structure Preamble (M : TStruct) : Prop where
  p__is_integer__def_ax : ∀ X : M.G, M.isInt X ↔ ∃ N : Int, X = M.ofInt N
  p__is_symbolic__def_ax : ∀ X1 : M.G, M.isSym X1 ↔ ∃ X2 : M.S, X1 = M.ofSym X2
  general_universe_ax : ∀ X : M.G, X = M.inf ∨ M.isInt X ∨ M.isSym X ∨ X = M.sup
  f__integer__def_ax : ∀ N1 N2 : Int, M.ofInt N1 = M.ofInt N2 ↔ N1 = N2
  f__symbolic__def_ax : ∀ S1 S2 : M.S, M.ofSym S1 = M.ofSym S2 ↔ S1 = S2
  numeral_ordering_ax : ∀ N1 N2 : Int, M.rel .le (M.ofInt N1) (M.ofInt N2) ↔ N1 ≤ N2
  antisymmetric_ordering_ax : ∀ X1 X2 : M.G, M.rel .le X1 X2 ∧ M.rel .le X2 X1 → X1 = X2
  transitive_ordering_ax : ∀ X1 X2 X3 : M.G, M.rel .le X1 X2 ∧ M.rel .le X2 X3 → M.rel .le X1 X3
  strongly_connected_ordering_ax : ∀ X1 X2 : M.G, M.rel .le X1 X2 ∨ M.rel .le X2 X1
  p__less__def_ax : ∀ X1 X2 : M.G, M.rel .lt X1 X2 ↔ (M.rel .le X1 X2 ∧ X1 ≠ X2)
  p__greater_equal__def_ax : ∀ X1 X2 : M.G, M.rel .ge X1 X2 ↔ M.rel .le X2 X1
  p__greater__def_ax : ∀ X1 X2 : M.G, M.rel .gt X1 X2 ↔ (M.rel .le X2 X1 ∧ X1 ≠ X2)
  minimal_element_ax : ∀ N : Int, M.rel .lt M.inf (M.ofInt N)
  numerals_less_than_symbols_ax : ∀ (N : Int) (S : M.S), M.rel .lt (M.ofInt N) (M.ofSym S)
  maximal_element_ax : ∀ S : M.S, M.rel .lt (M.ofSym S) M.sup

/-- the `symbol_order_<i>` axioms of a problem with symbolic constants `syms` -/
def SymbolOrder (M : TStruct) (syms : List String) : Prop :=
  ∀ p ∈ windows2 (sortStrs syms), M.rel .lt (M.ofSym (M.symc p.1)) (M.ofSym (M.symc p.2))

/-- the typed reading of an (untyped) assignment -/
def stdAsg (I : Interp) (ρ : Asg) : TAsg (stdStruct I) where
  g := fun x => ρ ⟨x, .general⟩
  i := fun x => (ρ ⟨x, .integer⟩).toInt
  s := fun x => (ρ ⟨x, .symbol⟩).toStr

end Anthem
