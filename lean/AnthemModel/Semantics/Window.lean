/-
  Executable, bounded evaluators (DESIGN.md 3.5, "Window"): quantifiers range over a finite
  window of the standard domain. Used ONLY to search for candidate failing inputs once a proof
  obligation or the correspondence is broken, and to smoke-test the definitions. No theorem
  mentions them; a hit is a candidate (bounded evaluation), labelled as such in the replay.
  An evaluation in which an integer term leaves the window is *tainted* (`none`) and ignored.
-/
import AnthemModel.Syntax.Fol
import AnthemModel.Semantics.Domain
namespace Anthem.Window

structure FinInterp where
  ints : List Int
  syms : List String
  /-- extents: (name, arity, tuples) -/
  preds : List (String × Nat × List (List Dom))
  fcs : List (Var × Dom)

abbrev AsgL := List (Var × Dom)

def defaultOf : Srt → Dom
  | .general => .num 0
  | .integer => .num 0
  | .symbol => .sym "a"

def lookup (ρ : AsgL) (v : Var) : Dom :=
  match ρ.find? (fun p => p.1 = v) with
  | some p => p.2
  | none => defaultOf v.sort

def FinInterp.window (I : FinInterp) (s : Srt) : List Dom :=
  match s with
  | .general => [.inf] ++ I.ints.map .num ++ I.syms.map .sym ++ [.sup]
  | .integer => I.ints.map .num
  | .symbol => I.syms.map .sym

def FinInterp.holds (I : FinInterp) (p : String) (args : List Dom) : Bool :=
  match I.preds.find? (fun e => e.1 = p && e.2.1 = args.length) with
  | some e => e.2.2.contains args
  | none => false

def FinInterp.fc (I : FinInterp) (c : String) (s : Srt) : Dom :=
  match I.fcs.find? (fun p => p.1 = ⟨c, s⟩) with
  | some p => p.2
  | none => defaultOf s

def inWindow (I : FinInterp) (z : Int) : Bool :=
  match I.ints.min?, I.ints.max? with
  | some lo, some hi => lo ≤ z && z ≤ hi
  | _, _ => false

/-- Integer terms are evaluated exactly (unbounded `Int`); only quantifier ranges are bounded. -/
def evalI (I : FinInterp) (ρ : AsgL) : ITerm → Option Int
  | .num n => some n
  | .fc c => some (I.fc c .integer).toInt
  | .var x => some (lookup ρ ⟨x, .integer⟩).toInt
  | .neg t => do
    let a ← evalI I ρ t
    some (-a)
  | .bin op l r => do
    let a ← evalI I ρ l
    let b ← evalI I ρ r
    some (match op with | .add => a + b | .sub => a - b | .mul => a * b)

/-- the same interpretation with the integer window widened by `k` on both sides -/
def FinInterp.widen (I : FinInterp) (k : Nat) : FinInterp :=
  match I.ints.min?, I.ints.max? with
  | some lo, some hi =>
    { I with ints := (List.range (hi - lo + 1 + 2 * (k : Int)).toNat).map (fun (j : Nat) => lo - (k : Int) + (j : Int)) }
  | _, _ => I

def evalS (I : FinInterp) (ρ : AsgL) : STerm → String
  | .sym s => s
  | .fc c => (I.fc c .symbol).toStr
  | .var x => (lookup ρ ⟨x, .symbol⟩).toStr

def evalG (I : FinInterp) (ρ : AsgL) : GTerm → Option Dom
  | .inf => some .inf
  | .sup => some .sup
  | .fc c => some (I.fc c .general)
  | .var x => some (lookup ρ ⟨x, .general⟩)
  | .int t => (evalI I ρ t).map .num
  | .symb t => some (.sym (evalS I ρ t))

def evalChain (I : FinInterp) (ρ : AsgL) : Dom → List Guard → Option Bool
  | _, [] => some true
  | d, g :: gs => do
    let e ← evalG I ρ g.term
    let rest ← evalChain I ρ e gs
    some (decide (g.rel.holds d e) && rest)

def evalAtomic (I : FinInterp) (ρ : AsgL) : AtomicF → Option Bool
  | .tru => some true
  | .fls => some false
  | .atom a => do
    let args ← a.args.mapM (evalG I ρ)
    some (I.holds a.pred args)
  | .cmp t gs => do
    let d ← evalG I ρ t
    evalChain I ρ d gs

def allM (xs : List Dom) (f : Dom → Option Bool) : Option Bool :=
  xs.foldl (fun acc d => do let a ← acc; let b ← f d; some (a && b)) (some true)

def anyM (xs : List Dom) (f : Dom → Option Bool) : Option Bool :=
  xs.foldl (fun acc d => do let a ← acc; let b ← f d; some (a || b)) (some false)

def bindAllB (I : FinInterp) : List Var → (AsgL → Option Bool) → AsgL → Option Bool
  | [], P, ρ => P ρ
  | v :: vs, P, ρ => allM (I.window v.sort) fun d => bindAllB I vs P ((v, d) :: ρ)

def bindExB (I : FinInterp) : List Var → (AsgL → Option Bool) → AsgL → Option Bool
  | [], P, ρ => P ρ
  | v :: vs, P, ρ => anyM (I.window v.sort) fun d => bindExB I vs P ((v, d) :: ρ)

/-- Classical evaluation (both sides of a connective are always evaluated, so that taint is
    never hidden by short-circuiting). -/
def evalSat (I : FinInterp) : Formula → AsgL → Option Bool
  | .atomic a, ρ => evalAtomic I ρ a
  | .not f, ρ => (evalSat I f ρ).map (!·)
  | .bin c l r, ρ => do
    let a ← evalSat I l ρ
    let b ← evalSat I r ρ
    some (match c with
      | .and => a && b | .or => a || b | .imp => !a || b | .rimp => !b || a | .iff => a == b)
  | .quant .all vs f, ρ => bindAllB I vs (evalSat I f) ρ
  | .quant .ex vs f, ρ => bindExB I vs (evalSat I f) ρ

/-- HT evaluation: `H` and `T` share window and function constants. -/
def evalHt (H T : FinInterp) : Formula → Bool → AsgL → Option Bool
  | .atomic a, here, ρ => evalAtomic (if here then H else T) ρ a
  | .not f, _, ρ => (evalHt H T f false ρ).map (!·)
  | .bin c l r, here, ρ => do
    let a ← evalHt H T l here ρ
    let b ← evalHt H T r here ρ
    let a' ← evalHt H T l false ρ
    let b' ← evalHt H T r false ρ
    some (match c with
      | .and => a && b
      | .or => a || b
      | .imp => (!a || b) && (!a' || b')
      | .rimp => (!b || a) && (!b' || a')
      | .iff => ((!a || b) && (!a' || b')) && ((!b || a) && (!b' || a')))
  | .quant .all vs f, here, ρ => bindAllB T vs (evalHt H T f here) ρ
  | .quant .ex vs f, here, ρ => bindExB T vs (evalHt H T f here) ρ

/-! ## random interpretations (splitmix64) -/

structure Rng where
  s : UInt64

def Rng.next (r : Rng) : UInt64 × Rng :=
  let s := r.s + 0x9E3779B97F4A7C15
  let z := (s ^^^ (s >>> 30)) * 0xBF58476D1CE4E5B9
  let z := (z ^^^ (z >>> 27)) * 0x94D049BB133111EB
  (z ^^^ (z >>> 31), ⟨s⟩)

def Rng.below (r : Rng) (n : Nat) : Nat × Rng :=
  let (x, r') := r.next
  (if n = 0 then 0 else x.toNat % n, r')

def tuples (dom : List Dom) : Nat → List (List Dom)
  | 0 => [[]]
  | n + 1 => (tuples dom n).flatMap fun t => dom.map fun d => d :: t

/-- random subset with density num/8 -/
def randomSubset {α} (xs : List α) (dens : Nat) (r : Rng) : List α × Rng :=
  xs.foldl (fun (acc : List α × Rng) x =>
    let (k, r') := acc.2.below 8
    (if k < dens then x :: acc.1 else acc.1, r')) ([], r)

def randomExtents (I : FinInterp) (ps : List Pred) (r : Rng) :
    List (String × Nat × List (List Dom)) × Rng :=
  ps.foldl (fun acc p =>
    let dom := I.window .general
    let all := if p.arity ≤ 2 then tuples dom p.arity else (tuples dom 2).map (fun t => t ++ List.replicate (p.arity - 2) (.num 0))
    let (dens, r1) := acc.2.below 9
    let (ext, r2) := randomSubset all dens r1
    (acc.1 ++ [(p.symbol, p.arity, ext)], r2)) ([], r)

def randomFcs (I : FinInterp) (cs : List FnConst) (r : Rng) : List (Var × Dom) × Rng :=
  cs.foldl (fun acc c =>
    let w := I.window c.sort
    let (k, r') := acc.2.below w.length
    (acc.1 ++ [(c, w.getD k (defaultOf c.sort))], r')) ([], r)

def randomAsg (I : FinInterp) (vs : List Var) (r : Rng) : AsgL × Rng :=
  vs.foldl (fun acc v =>
    let w := I.window v.sort
    let (k, r') := acc.2.below w.length
    (acc.1 ++ [(v, w.getD k (defaultOf v.sort))], r')) ([], r)

def ITerm.nums : ITerm → List Int
  | .num n => [n] | .fc _ | .var _ => [] | .neg t => ITerm.nums t
  | .bin _ l r => ITerm.nums l ++ ITerm.nums r

def gtermNums : GTerm → List Int
  | .int t => ITerm.nums t | _ => []

def atomicNums : AtomicF → List Int
  | .atom a => a.args.flatMap gtermNums
  | .cmp t gs => gtermNums t ++ gs.flatMap (fun g => gtermNums g.term)
  | _ => []

def formulaNums : Formula → List Int
  | .atomic a => atomicNums a
  | .not f => formulaNums f
  | .bin _ l r => formulaNums l ++ formulaNums r
  | .quant _ _ f => formulaNums f

/-- window: −2..3 widened to cover the numerals mentioned (capped), symbols a, b + mentioned -/
def baseInterp (fs : List Formula) : FinInterp :=
  let nums := fs.flatMap formulaNums
  let lo := nums.foldl (fun a b => if b < a then b else a) (-2)
  let hi := nums.foldl (fun a b => if b > a then b else a) 3
  let lo := if lo < -6 then -6 else lo - 1
  let hi := if hi > 12 then 12 else hi + 1
  let syms := (fs.flatMap Formula.symbols).foldl ins ["a", "b"]
  { ints := (List.range (hi - lo + 1).toNat).map (fun (k : Nat) => lo + (k : Int)), syms := syms.take 4,
    preds := [], fcs := [] }

end Anthem.Window
