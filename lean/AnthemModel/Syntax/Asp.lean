/-
  mini-gringo programs, mirroring /repo/src/syntax_tree/asp/mini_gringo.rs.
-/
import AnthemModel.Syntax.Fol
namespace Anthem.Asp

inductive Pre
  | inf
  | num (n : Int)
  | sym (s : String)
  | sup
  deriving DecidableEq, Repr, Inhabited

inductive Op | add | sub | mul | div | mod | interval
  deriving DecidableEq, Repr, Inhabited

inductive Term
  | pre (p : Pre)
  | var (x : String)
  | neg (t : Term)
  | bin (op : Op) (l r : Term)
  deriving DecidableEq, Repr, Inhabited

structure Atom where
  pred : String
  args : List Term
  deriving DecidableEq, Repr, Inhabited

inductive Sign | pos | neg | negneg
  deriving DecidableEq, Repr, Inhabited

structure Literal where
  sign : Sign
  atom : Atom
  deriving DecidableEq, Repr, Inhabited

/-- Declaration order of the Rust enum: Equal, NotEqual, Less, LessEqual, Greater, GreaterEqual. -/
inductive Rel | eq | ne | lt | le | gt | ge
  deriving DecidableEq, Repr, Inhabited

inductive BodyAtom
  | lit (l : Literal)
  | cmp (rel : Rel) (l r : Term)
  deriving DecidableEq, Repr, Inhabited

inductive Head
  | basic (a : Atom)
  | choice (a : Atom)
  | falsity
  deriving DecidableEq, Repr, Inhabited

structure Rule where
  head : Head
  body : List BodyAtom
  deriving DecidableEq, Repr, Inhabited

abbrev Program := List Rule

def Term.vars : Term → List String
  | .pre _ => []
  | .var x => [x]
  | .neg t => t.vars
  | .bin _ l r => ext l.vars r.vars

def Term.symbols : Term → List String
  | .pre (.sym s) => [s]
  | .pre _ => []
  | .var _ => []
  | .neg t => t.symbols
  | .bin _ l r => ext l.symbols r.symbols

def Atom.predicate (a : Atom) : Pred := ⟨a.pred, a.args.length⟩
def Atom.vars (a : Atom) : List String := a.args.foldl (fun acc t => ext acc t.vars) []
def Atom.symbols (a : Atom) : List String := a.args.foldl (fun acc t => ext acc t.symbols) []

def BodyAtom.vars : BodyAtom → List String
  | .lit l => l.atom.vars
  | .cmp _ l r => ext l.vars r.vars

def BodyAtom.symbols : BodyAtom → List String
  | .lit l => l.atom.symbols
  | .cmp _ l r => ext l.symbols r.symbols

def BodyAtom.preds : BodyAtom → List Pred
  | .lit l => [l.atom.predicate]
  | .cmp .. => []

def BodyAtom.posPreds : BodyAtom → List Pred
  | .lit ⟨.pos, a⟩ => [a.predicate]
  | _ => []

def BodyAtom.terms : BodyAtom → List Term
  | .lit l => l.atom.args.foldl ins []
  | .cmp _ l r => ins [l] r

def Head.predicate : Head → Option Pred
  | .basic a | .choice a => some a.predicate
  | .falsity => none

def Head.terms : Head → Option (List Term)
  | .basic a | .choice a => some a.args
  | .falsity => none

def Head.arity : Head → Nat
  | .basic a | .choice a => a.args.length
  | .falsity => 0

def Head.vars : Head → List String
  | .basic a | .choice a => a.vars
  | .falsity => []

def Head.symbols : Head → List String
  | .basic a | .choice a => a.symbols
  | .falsity => []

def bodyVars (b : List BodyAtom) : List String := b.foldl (fun acc f => ext acc f.vars) []
def bodySymbols (b : List BodyAtom) : List String := b.foldl (fun acc f => ext acc f.symbols) []
def bodyPreds (b : List BodyAtom) : List Pred := b.foldl (fun acc f => ext acc f.preds) []
def bodyPosPreds (b : List BodyAtom) : List Pred := b.foldl (fun acc f => ext acc f.posPreds) []
def bodyTerms (b : List BodyAtom) : List Term := b.foldl (fun acc f => ext acc f.terms) []

def Rule.vars (r : Rule) : List String := ext r.head.vars (bodyVars r.body)
def Rule.symbols (r : Rule) : List String := ext r.head.symbols (bodySymbols r.body)
def Rule.preds (r : Rule) : List Pred :=
  ext (match r.head.predicate with | some p => [p] | none => []) (bodyPreds r.body)
def Rule.terms (r : Rule) : List Term :=
  ext ((r.head.terms.getD []).foldl ins []) (bodyTerms r.body)

def Program.vars (p : Program) : List String := p.foldl (fun acc r => ext acc r.vars) []
def Program.symbols (p : Program) : List String := p.foldl (fun acc r => ext acc r.symbols) []
def Program.preds (p : Program) : List Pred := p.foldl (fun acc r => ext acc r.preds) []
def headPredStep (acc : List Pred) (r : Rule) : List Pred :=
  match r.head.predicate with
  | some q => ins acc q
  | none => acc

def Program.headPreds (p : Program) : List Pred := p.foldl headPredStep []

end Anthem.Asp
