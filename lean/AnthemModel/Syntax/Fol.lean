/-
  Target language (many-sorted first-order formulas), mirroring
  /repo/src/syntax_tree/fol/sigma_0.rs constructor for constructor.
  Import-free (core only) so that the driver executable links.
-/
namespace Anthem

inductive Srt | general | integer | symbol
  deriving DecidableEq, Repr, Inhabited

/-- Rust `derive(Ord)` on `Sort`: General < Integer < Symbol. -/
def Srt.rank : Srt → Nat
  | .general => 0 | .integer => 1 | .symbol => 2

structure Var where
  name : String
  sort : Srt
  deriving DecidableEq, Repr, Inhabited

/-- Rust `derive(Ord)` on `Variable`: by name (bytes), then by sort. -/
def Var.lt (a b : Var) : Bool :=
  decide (a.name < b.name) || (a.name == b.name && decide (a.sort.rank < b.sort.rank))

def Var.le (a b : Var) : Bool := !(Var.lt b a)

/-- `FunctionConstant` has the same shape as `Variable`. -/
abbrev FnConst := Var

inductive IOp | add | sub | mul
  deriving DecidableEq, Repr, Inhabited

inductive ITerm
  | num (n : Int)
  | fc (c : String)
  | var (x : String)
  | neg (t : ITerm)
  | bin (op : IOp) (l r : ITerm)
  deriving DecidableEq, Repr, Inhabited

inductive STerm
  | sym (s : String)
  | fc (c : String)
  | var (x : String)
  deriving DecidableEq, Repr, Inhabited

inductive GTerm
  | inf
  | sup
  | fc (c : String)
  | var (x : String)
  | int (t : ITerm)
  | symb (t : STerm)
  deriving DecidableEq, Repr, Inhabited

structure Pred where
  symbol : String
  arity : Nat
  deriving DecidableEq, Repr, Inhabited

structure Atom where
  pred : String
  args : List GTerm
  deriving DecidableEq, Repr, Inhabited

inductive Rel | eq | ne | gt | lt | ge | le
  deriving DecidableEq, Repr, Inhabited

structure Guard where
  rel : Rel
  term : GTerm
  deriving DecidableEq, Repr, Inhabited

inductive AtomicF
  | tru
  | fls
  | atom (a : Atom)
  | cmp (t : GTerm) (gs : List Guard)
  deriving DecidableEq, Repr, Inhabited

inductive Conn | and | or | imp | rimp | iff
  deriving DecidableEq, Repr, Inhabited

inductive Quant | all | ex
  deriving DecidableEq, Repr, Inhabited

inductive Formula
  | atomic (a : AtomicF)
  | not (f : Formula)
  | bin (c : Conn) (l r : Formula)
  | quant (q : Quant) (vs : List Var) (f : Formula)
  deriving DecidableEq, Repr, Inhabited

abbrev Theory := List Formula

/-! ## Insertion-ordered duplicate-free lists (`IndexSet`) -/

/-- `IndexSet::insert`: append unless present. -/
def ins {α} [DecidableEq α] (s : List α) (a : α) : List α :=
  if a ∈ s then s else s ++ [a]

/-- `IndexSet::extend`. -/
def ext {α} [DecidableEq α] (s t : List α) : List α := t.foldl ins s

/-- `enumerate()` starting at `k` -/
def indexFrom {α} (k : Nat) : List α → List (Nat × α)
  | [] => []
  | x :: xs => (k, x) :: indexFrom (k + 1) xs

/-! ## variables / free variables / predicates / symbols / function constants -/

def ITerm.vars : ITerm → List Var
  | .num _ | .fc _ => []
  | .var x => [⟨x, .integer⟩]
  | .neg t => t.vars
  | .bin _ l r => ext l.vars r.vars

def STerm.vars : STerm → List Var
  | .var x => [⟨x, .symbol⟩]
  | _ => []

def GTerm.vars : GTerm → List Var
  | .inf | .sup | .fc _ => []
  | .var x => [⟨x, .general⟩]
  | .int t => t.vars
  | .symb t => t.vars

def GTerm.symbols : GTerm → List String
  | .symb (.sym s) => [s]
  | _ => []

def ITerm.fcs : ITerm → List FnConst
  | .fc c => [⟨c, .integer⟩]
  | .num _ | .var _ => []
  | .neg t => t.fcs
  | .bin _ l r => ext l.fcs r.fcs

def STerm.fcs : STerm → List FnConst
  | .fc c => [⟨c, .symbol⟩]
  | _ => []

def GTerm.fcs : GTerm → List FnConst
  | .fc c => [⟨c, .general⟩]
  | .int t => t.fcs
  | .symb t => t.fcs
  | _ => []

def Atom.predicate (a : Atom) : Pred := ⟨a.pred, a.args.length⟩

def AtomicF.vars : AtomicF → List Var
  | .tru | .fls => []
  | .atom a => a.args.foldl (fun acc t => ext acc t.vars) []
  | .cmp t gs => gs.foldl (fun acc g => ext acc g.term.vars) t.vars

def AtomicF.preds : AtomicF → List Pred
  | .atom a => [a.predicate]
  | _ => []

def AtomicF.symbols : AtomicF → List String
  | .tru | .fls => []
  | .atom a => a.args.foldl (fun acc t => ext acc t.symbols) []
  | .cmp t gs => gs.foldl (fun acc g => ext acc g.term.symbols) t.symbols

def AtomicF.fcs : AtomicF → List FnConst
  | .tru | .fls => []
  | .atom a => a.args.foldl (fun acc t => ext acc t.fcs) []
  | .cmp t gs => gs.foldl (fun acc g => ext acc g.term.fcs) t.fcs

def Formula.vars : Formula → List Var
  | .atomic a => a.vars
  | .not f => f.vars
  | .bin _ l r => ext l.vars r.vars
  | .quant _ _ f => f.vars

/-- `free_variables`: `shift_remove` of each bound variable keeps insertion order. -/
def Formula.fv : Formula → List Var
  | .atomic a => a.vars
  | .not f => f.fv
  | .bin _ l r => ext l.fv r.fv
  | .quant _ vs f => vs.foldl (fun acc v => acc.erase v) f.fv

def Formula.preds : Formula → List Pred
  | .atomic a => a.preds
  | .not f => f.preds
  | .bin _ l r => ext l.preds r.preds
  | .quant _ _ f => f.preds

def Formula.symbols : Formula → List String
  | .atomic a => a.symbols
  | .not f => f.symbols
  | .bin _ l r => ext l.symbols r.symbols
  | .quant _ _ f => f.symbols

def Formula.fcs : Formula → List FnConst
  | .atomic a => a.fcs
  | .not f => f.fcs
  | .bin _ l r => ext l.fcs r.fcs
  | .quant _ _ f => f.fcs

def Theory.preds (t : Theory) : List Pred := t.foldl (fun acc f => ext acc f.preds) []

/-! ## constructors used all over the Rust code -/

def Formula.tru : Formula := .atomic .tru
def Formula.fls : Formula := .atomic .fls

/-- `Formula::conjoin` (`reduce`, left-nested; empty = `#true`). -/
def conjoin : List Formula → Formula
  | [] => .tru
  | f :: fs => fs.foldl (fun acc e => .bin .and acc e) f

/-- `Formula::disjoin`. -/
def disjoin : List Formula → Formula
  | [] => .fls
  | f :: fs => fs.foldl (fun acc e => .bin .or acc e) f

/-- `Formula::quantify`: no node for an empty variable list. -/
def Formula.quantify (f : Formula) (q : Quant) (vs : List Var) : Formula :=
  if vs.isEmpty then f else .quant q vs f

def Formula.universalClosure (f : Formula) : Formula := f.quantify .all f.fv

/-- `From<Variable> for GeneralTerm`. -/
def Var.toTerm (v : Var) : GTerm :=
  match v.sort with
  | .general => .var v.name
  | .integer => .int (.var v.name)
  | .symbol => .symb (.var v.name)

/-- `TryFrom<GeneralTerm> for Variable`. -/
def GTerm.asVar? : GTerm → Option Var
  | .var x => some ⟨x, .general⟩
  | .int (.var x) => some ⟨x, .integer⟩
  | .symb (.var x) => some ⟨x, .symbol⟩
  | _ => none

end Anthem
