/-
  S-expressions: the wire format between the Rust harness and the model driver.
  Bare atoms, double-quoted strings with \" and \\ escapes, lists in parentheses.
-/
namespace Anthem

inductive Sexp
  | atom (s : String)
  | str (s : String)
  | list (xs : List Sexp)
  deriving Repr, Inhabited, BEq

namespace Sexp

def escape (s : String) : String :=
  s.foldl (fun acc c => if c == '"' then acc ++ "\\\"" else if c == '\\' then acc ++ "\\\\"
    else if c == '\n' then acc ++ "\\n" else if c == '\r' then acc ++ "\\r" else acc.push c) ""

partial def toStr : Sexp → String
  | .atom s => s
  | .str s => "\"" ++ escape s ++ "\""
  | .list xs => "(" ++ " ".intercalate (xs.map toStr) ++ ")"

instance : ToString Sexp := ⟨toStr⟩

/-- Tokeniser + parser over a char list. Returns the value and the rest. -/
partial def parseAux : List Char → Option (Sexp × List Char)
  | [] => none
  | c :: cs =>
    if c == ' ' || c == '\t' || c == '\n' || c == '\r' then parseAux cs
    else if c == '(' then
      let rec go (acc : List Sexp) (cs : List Char) : Option (Sexp × List Char) :=
        match cs with
        | [] => none
        | d :: ds =>
          if d == ' ' || d == '\t' || d == '\n' || d == '\r' then go acc ds
          else if d == ')' then some (.list acc.reverse, ds)
          else match parseAux (d :: ds) with
            | some (v, rest) => go (v :: acc) rest
            | none => none
      go [] cs
    else if c == ')' then none
    else if c == '"' then
      let rec str (acc : String) (cs : List Char) : Option (Sexp × List Char) :=
        match cs with
        | [] => none
        | '"' :: ds => some (.str acc, ds)
        | '\\' :: 'n' :: ds => str (acc.push '\n') ds
        | '\\' :: 'r' :: ds => str (acc.push '\r') ds
        | '\\' :: d :: ds => str (acc.push d) ds
        | d :: ds => str (acc.push d) ds
      str "" cs
    else
      let rec bare (acc : String) (cs : List Char) : Option (Sexp × List Char) :=
        match cs with
        | [] => some (.atom acc, [])
        | d :: ds =>
          if d == ' ' || d == '\t' || d == '\n' || d == '\r' || d == '(' || d == ')' || d == '"'
          then some (.atom acc, d :: ds) else bare (acc.push d) ds
      bare (String.singleton c) cs

def parse (s : String) : Option Sexp :=
  match parseAux s.toList with
  | some (v, _) => some v
  | none => none

def ofInt (i : Int) : Sexp := .atom (toString i)
def ofNat (n : Nat) : Sexp := .atom (toString n)
def ofBool (b : Bool) : Sexp := .atom (if b then "true" else "false")

def asInt? : Sexp → Option Int
  | .atom s => s.toInt?
  | _ => none

def asNat? : Sexp → Option Nat
  | .atom s => s.toNat?
  | _ => none

def asStr? : Sexp → Option String
  | .str s => some s
  | _ => none

def asBool? : Sexp → Option Bool
  | .atom "true" => some true
  | .atom "false" => some false
  | _ => none

end Sexp
end Anthem
