/-
  Wire encoding of the syntax trees as S-expressions (see DESIGN.md Appendix B).
  Only used by the driver; no theorem mentions it. The Rust writer is harness/src/sexp.rs.
-/
import AnthemModel.Syntax.Fol
import AnthemModel.Syntax.Asp
import AnthemModel.Syntax.Sexp
namespace Anthem
open Sexp

def Srt.toSexp : Srt → Sexp
  | .general => .atom "g" | .integer => .atom "i" | .symbol => .atom "s"
def Srt.ofSexp : Sexp → Option Srt
  | .atom "g" => some .general | .atom "i" => some .integer | .atom "s" => some .symbol
  | _ => none

def Var.toSexp (v : Var) : Sexp := .list [.str v.name, v.sort.toSexp]
def Var.ofSexp : Sexp → Option Var
  | .list [.str n, s] => do some ⟨n, ← Srt.ofSexp s⟩
  | _ => none

def listOf {α} (f : Sexp → Option α) : Sexp → Option (List α)
  | .list xs => xs.mapM f
  | _ => none

def IOp.name : IOp → String | .add => "add" | .sub => "sub" | .mul => "mul"

def ITerm.toSexp : ITerm → Sexp
  | .num n => .list [.atom "n", ofInt n]
  | .fc c => .list [.atom "if", .str c]
  | .var x => .list [.atom "iv", .str x]
  | .neg t => .list [.atom "neg", t.toSexp]
  | .bin op l r => .list [.atom op.name, l.toSexp, r.toSexp]

partial def ITerm.ofSexp : Sexp → Option ITerm
  | .list [.atom "n", n] => do some (.num (← n.asInt?))
  | .list [.atom "if", .str c] => some (.fc c)
  | .list [.atom "iv", .str x] => some (.var x)
  | .list [.atom "neg", t] => do some (.neg (← ITerm.ofSexp t))
  | .list [.atom "add", l, r] => do some (.bin .add (← ITerm.ofSexp l) (← ITerm.ofSexp r))
  | .list [.atom "sub", l, r] => do some (.bin .sub (← ITerm.ofSexp l) (← ITerm.ofSexp r))
  | .list [.atom "mul", l, r] => do some (.bin .mul (← ITerm.ofSexp l) (← ITerm.ofSexp r))
  | _ => none

def STerm.toSexp : STerm → Sexp
  | .sym s => .list [.atom "sy", .str s]
  | .fc c => .list [.atom "sf", .str c]
  | .var x => .list [.atom "sv", .str x]
def STerm.ofSexp : Sexp → Option STerm
  | .list [.atom "sy", .str s] => some (.sym s)
  | .list [.atom "sf", .str s] => some (.fc s)
  | .list [.atom "sv", .str s] => some (.var s)
  | _ => none

def GTerm.toSexp : GTerm → Sexp
  | .inf => .atom "Inf"
  | .sup => .atom "Sup"
  | .fc c => .list [.atom "GF", .str c]
  | .var x => .list [.atom "GV", .str x]
  | .int t => .list [.atom "I", t.toSexp]
  | .symb t => .list [.atom "S", t.toSexp]
def GTerm.ofSexp : Sexp → Option GTerm
  | .atom "Inf" => some .inf
  | .atom "Sup" => some .sup
  | .list [.atom "GF", .str c] => some (.fc c)
  | .list [.atom "GV", .str c] => some (.var c)
  | .list [.atom "I", t] => do some (.int (← ITerm.ofSexp t))
  | .list [.atom "S", t] => do some (.symb (← STerm.ofSexp t))
  | _ => none

def Rel.name : Rel → String
  | .eq => "eq" | .ne => "ne" | .gt => "gt" | .lt => "lt" | .ge => "ge" | .le => "le"
def Rel.ofName : String → Option Rel
  | "eq" => some .eq | "ne" => some .ne | "gt" => some .gt | "lt" => some .lt
  | "ge" => some .ge | "le" => some .le | _ => none

def Guard.toSexp (g : Guard) : Sexp := .list [.atom g.rel.name, g.term.toSexp]
def Guard.ofSexp : Sexp → Option Guard
  | .list [.atom r, t] => do some ⟨← Rel.ofName r, ← GTerm.ofSexp t⟩
  | _ => none

def Pred.toSexp (p : Pred) : Sexp := .list [.str p.symbol, ofNat p.arity]
def Pred.ofSexp : Sexp → Option Pred
  | .list [.str s, n] => do some ⟨s, ← n.asNat?⟩
  | _ => none

def AtomicF.toSexp : AtomicF → Sexp
  | .tru => .atom "T"
  | .fls => .atom "F"
  | .atom a => .list [.atom "P", .str a.pred, .list (a.args.map GTerm.toSexp)]
  | .cmp t gs => .list [.atom "C", t.toSexp, .list (gs.map Guard.toSexp)]
def AtomicF.ofSexp : Sexp → Option AtomicF
  | .atom "T" => some .tru
  | .atom "F" => some .fls
  | .list [.atom "P", .str p, args] => do some (.atom ⟨p, ← listOf GTerm.ofSexp args⟩)
  | .list [.atom "C", t, gs] => do some (.cmp (← GTerm.ofSexp t) (← listOf Guard.ofSexp gs))
  | _ => none

def Conn.name : Conn → String
  | .and => "and" | .or => "or" | .imp => "imp" | .rimp => "rimp" | .iff => "iff"
def Conn.ofName : String → Option Conn
  | "and" => some .and | "or" => some .or | "imp" => some .imp | "rimp" => some .rimp
  | "iff" => some .iff | _ => none
def Quant.name : Quant → String | .all => "all" | .ex => "ex"
def Quant.ofName : String → Option Quant
  | "all" => some .all | "ex" => some .ex | _ => none

def Formula.toSexp : Formula → Sexp
  | .atomic a => .list [.atom "A", a.toSexp]
  | .not f => .list [.atom "N", f.toSexp]
  | .bin c l r => .list [.atom "B", .atom c.name, l.toSexp, r.toSexp]
  | .quant q vs f => .list [.atom "Q", .atom q.name, .list (vs.map Var.toSexp), f.toSexp]

partial def Formula.ofSexp : Sexp → Option Formula
  | .list [.atom "A", a] => do some (.atomic (← AtomicF.ofSexp a))
  | .list [.atom "N", f] => do some (.not (← Formula.ofSexp f))
  | .list [.atom "B", .atom c, l, r] => do
      some (.bin (← Conn.ofName c) (← Formula.ofSexp l) (← Formula.ofSexp r))
  | .list [.atom "Q", .atom q, vs, f] => do
      some (.quant (← Quant.ofName q) (← listOf Var.ofSexp vs) (← Formula.ofSexp f))
  | _ => none

def optToSexp {α} (f : α → Sexp) : Option α → Sexp
  | some a => .list [.atom "some", f a]
  | none => .atom "none"

def theoryToSexp (t : Theory) : Sexp := .list (t.map Formula.toSexp)
def theoryOfSexp : Sexp → Option Theory := listOf Formula.ofSexp

namespace Asp

def Pre.toSexp : Pre → Sexp
  | .inf => .atom "inf" | .sup => .atom "sup"
  | .num n => .list [.atom "num", ofInt n]
  | .sym s => .list [.atom "sym", .str s]
def Pre.ofSexp : Sexp → Option Pre
  | .atom "inf" => some .inf | .atom "sup" => some .sup
  | .list [.atom "num", n] => do some (.num (← n.asInt?))
  | .list [.atom "sym", .str s] => some (.sym s)
  | _ => none

def Op.name : Op → String
  | .add => "add" | .sub => "sub" | .mul => "mul" | .div => "div" | .mod => "mod"
  | .interval => "int"
def Op.ofName : String → Option Op
  | "add" => some .add | "sub" => some .sub | "mul" => some .mul | "div" => some .div
  | "mod" => some .mod | "int" => some .interval | _ => none

def Term.toSexp : Term → Sexp
  | .pre p => p.toSexp
  | .var x => .list [.atom "var", .str x]
  | .neg t => .list [.atom "neg", t.toSexp]
  | .bin op l r => .list [.atom "op", .atom op.name, l.toSexp, r.toSexp]
partial def Term.ofSexp : Sexp → Option Term
  | .list [.atom "var", .str x] => some (.var x)
  | .list [.atom "neg", t] => do some (.neg (← Term.ofSexp t))
  | .list [.atom "op", .atom o, l, r] => do
      some (.bin (← Op.ofName o) (← Term.ofSexp l) (← Term.ofSexp r))
  | s => do some (.pre (← Pre.ofSexp s))

def Atom.toSexp (a : Atom) : Sexp := .list [.str a.pred, .list (a.args.map Term.toSexp)]
def Atom.ofSexp : Sexp → Option Atom
  | .list [.str p, args] => do some ⟨p, ← listOf Term.ofSexp args⟩
  | _ => none

def Sign.name : Sign → String | .pos => "pos" | .neg => "neg" | .negneg => "nn"
def Sign.ofName : String → Option Sign
  | "pos" => some .pos | "neg" => some .neg | "nn" => some .negneg | _ => none

def Rel.name : Rel → String
  | .eq => "eq" | .ne => "ne" | .gt => "gt" | .lt => "lt" | .ge => "ge" | .le => "le"
def Rel.ofName : String → Option Rel
  | "eq" => some .eq | "ne" => some .ne | "gt" => some .gt | "lt" => some .lt
  | "ge" => some .ge | "le" => some .le | _ => none

def BodyAtom.toSexp : BodyAtom → Sexp
  | .lit l => .list [.atom "lit", .atom l.sign.name, l.atom.toSexp]
  | .cmp r a b => .list [.atom "cmp", .atom r.name, a.toSexp, b.toSexp]
def BodyAtom.ofSexp : Sexp → Option BodyAtom
  | .list [.atom "lit", .atom s, a] => do some (.lit ⟨← Sign.ofName s, ← Atom.ofSexp a⟩)
  | .list [.atom "cmp", .atom r, a, b] => do
      some (.cmp (← Rel.ofName r) (← Term.ofSexp a) (← Term.ofSexp b))
  | _ => none

def Head.toSexp : Head → Sexp
  | .basic a => .list [.atom "basic", a.toSexp]
  | .choice a => .list [.atom "choice", a.toSexp]
  | .falsity => .atom "false"
def Head.ofSexp : Sexp → Option Head
  | .list [.atom "basic", a] => do some (.basic (← Atom.ofSexp a))
  | .list [.atom "choice", a] => do some (.choice (← Atom.ofSexp a))
  | .atom "false" => some .falsity
  | _ => none

def Rule.toSexp (r : Rule) : Sexp := .list [.atom "rule", r.head.toSexp, .list (r.body.map BodyAtom.toSexp)]
def Rule.ofSexp : Sexp → Option Rule
  | .list [.atom "rule", h, b] => do some ⟨← Head.ofSexp h, ← listOf BodyAtom.ofSexp b⟩
  | _ => none

def programToSexp (p : Program) : Sexp := .list (p.map Rule.toSexp)
def programOfSexp : Sexp → Option Program := listOf Rule.ofSexp

end Asp
end Anthem
