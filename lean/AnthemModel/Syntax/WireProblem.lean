/-
  Wire encoding of problems and tasks.
-/
import AnthemModel.Syntax.Wire
import AnthemModel.Model.Strong
namespace Anthem
open Sexp

def PRole.name : PRole → String | .axiom => "axiom" | .conjecture => "conjecture"

def AnnF.toSexp (a : AnnF) : Sexp := .list [.str a.name, .atom a.role.name, a.formula.toSexp]
def Problem.toSexp (p : Problem) : Sexp := .list [.atom "problem", .str p.name, .list (p.formulas.map AnnF.toSexp)]

def Decomposition.ofName : String → Option Decomposition
  | "independent" => some .independent | "sequential" => some .sequential | _ => none
def Direction.ofName : String → Option Direction
  | "universal" => some .universal | "forward" => some .forward | "backward" => some .backward | _ => none
def FormulaRep.ofName : String → Option FormulaRep
  | "mu" => some .mu | "tau_star" => some .tauStar | _ => none

end Anthem
