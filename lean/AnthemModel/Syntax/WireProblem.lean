/-
  Wire encoding of problems and tasks.
-/
import AnthemModel.Syntax.Wire
import AnthemModel.Model.Strong
import AnthemModel.Model.External
namespace Anthem
open Sexp

def PRole.name : PRole → String | .axiom => "axiom" | .conjecture => "conjecture"

def AnnF.toSexp (a : AnnF) : Sexp := .list [.str a.name, .atom a.role.name, a.formula.toSexp]
def Problem.toSexp (p : Problem) : Sexp := .list [.atom "problem", .str p.name, .list (p.formulas.map AnnF.toSexp)]

def PRole.ofName : String → Option PRole
  | "axiom" => some .axiom | "conjecture" => some .conjecture | _ => none

def AnnF.ofSexp : Sexp → Option AnnF
  | .list [.str n, .atom r, f] => do some ⟨n, ← PRole.ofName r, ← Formula.ofSexp f⟩
  | _ => none

def Problem.ofSexp : Sexp → Option Problem
  | .list [.atom "problem", .str n, fs] => do some ⟨n, ← listOf AnnF.ofSexp fs⟩
  | _ => none

def Decomposition.ofName : String → Option Decomposition
  | "independent" => some .independent | "sequential" => some .sequential | _ => none
def Direction.ofName : String → Option Direction
  | "universal" => some .universal | "forward" => some .forward | "backward" => some .backward | _ => none
def FormulaRep.ofName : String → Option FormulaRep
  | "mu" => some .mu | "tau_star" => some .tauStar | _ => none

end Anthem

namespace Anthem
open Sexp

def SRole.ofName : String → Option SRole
  | "assumption" => some .assumption | "spec" => some .spec | "lemma" => some .lemma
  | "definition" => some .definition | "inductive_lemma" => some .inductiveLemma | _ => none

def SAnn.ofSexp : Sexp → Option SAnn
  | .list [.atom r, .atom d, .str n, f] => do
    some ⟨← SRole.ofName r, ← Direction.ofName d, n, ← Formula.ofSexp f⟩
  | _ => none

def UGEntry.ofSexp : Sexp → Option UGEntry
  | .list [.atom "in", p] => do some (.input (← Pred.ofSexp p))
  | .list [.atom "out", p] => do some (.output (← Pred.ofSexp p))
  | .list [.atom "ph", .str n, s] => do some (.placeholder n (← Srt.ofSexp s))
  | .list [.atom "af", a] => do some (.formula (← SAnn.ofSexp a))
  | _ => none

def SRole.name : SRole → String
  | .assumption => "assumption" | .spec => "spec" | .lemma => "lemma"
  | .definition => "definition" | .inductiveLemma => "inductive_lemma"

def Direction.name : Direction → String
  | .universal => "universal" | .forward => "forward" | .backward => "backward"

def SAnn.toSexp (a : SAnn) : Sexp :=
  .list [.atom a.role.name, .atom a.direction.name, .str a.name, a.formula.toSexp]

def UGEntry.toSexp : UGEntry → Sexp
  | .input p => .list [.atom "in", p.toSexp]
  | .output p => .list [.atom "out", p.toSexp]
  | .placeholder n s => .list [.atom "ph", .str n, s.toSexp]
  | .formula a => .list [.atom "af", a.toSexp]

def specSideOfSexp : Sexp → Option (Sum Asp.Program Specification)
  | .list [.atom "prog", p] => do some (.inl (← Asp.programOfSexp p))
  | .list [.atom "spec", s] => do some (.inr (← listOf SAnn.ofSexp s))
  | _ => none

def TaskError.name (e : TaskError) : String := (reprStr e).replace "Anthem.TaskError." ""

end Anthem
