/-
  Model driver: one request per line `(op arg …)`, one response per line.
  Imports only Syntax/ and Model/ files (core + Std), so that it links as a native executable.
-/
import AnthemModel.Syntax.Wire
import AnthemModel.Model.Gamma
import AnthemModel.Model.Simplify
import AnthemModel.Model.TauStar
import AnthemModel.Model.Completion
import AnthemModel.Model.Analyze
import AnthemModel.Syntax.WireProblem
import AnthemModel.Model.TptpFmt
import AnthemModel.Model.External
import AnthemModel.Model.Files
import AnthemModel.Model.Status
import AnthemModel.Model.Print
import AnthemModel.Model.AspParse
import AnthemModel.Model.FolParse
import AnthemModel.Model.TffParse
import Driver.Search
open Anthem

def bad : Sexp := .list [.atom "bad-request"]

def rewriteByName : String → Option (Formula → Formula)
  | "evaluate_comparisons" => some evaluateComparisons
  | "apply_negation_definition_inverse" => some applyNegationDefinitionInverse
  | "apply_reverse_implication_definition" => some applyReverseImplicationDefinition
  | "apply_equivalence_definition_inverse" => some applyEquivalenceDefinitionInverse
  | "remove_identities" => some removeIdentities
  | "remove_annihilations" => some removeAnnihilations
  | "remove_idempotences" => some removeIdempotences
  | "remove_orphaned_variables" => some removeOrphanedVariables
  | "remove_empty_quantifications" => some removeEmptyQuantifications
  | "join_nested_quantifiers" => some joinNestedQuantifiers
  | "remove_double_negation" => some removeDoubleNegation
  | "substitute_defined_variables" => some substituteDefinedVariables
  | "restrict_quantifier_domain" => some restrictQuantifierDomain
  | "extend_quantifier_scope" => some extendQuantifierScope
  | "simplify_transitive_equality" => some simplifyTransitiveEquality
  | _ => none

def portfolioByName : String → Option Portfolio
  | "intuitionistic" => some .intuitionistic | "ht" => some .ht | "classic" => some .classic
  | _ => none

def strategyByName : String → Option Strategy
  | "shallow" => some .shallow | "recursive" => some .recursive | "fixpoint" => some .fixpoint
  | _ => none

partial def ftreeOfSexp : Sexp → Option FTree
  | .list [.atom "f", .str n] => some (.file n)
  | .list [.atom "l", .str n] => some (.link n)
  | .list [.atom "d", .str n, .list cs] => do some (.dir n (← cs.mapM ftreeOfSexp))
  | _ => none

def strs (l : List String) : Sexp := .list (l.map .str)
def optStr : Option String → Sexp | some s => .str s | none => .atom "none"

def specSexp : Option (Bool × String) → Sexp
  | some (true, s) => .list [.atom "spec", .str s]
  | some (false, s) => .list [.atom "prog", .str s]
  | none => .atom "none"

def respond (req : Sexp) : Sexp :=
  match req with
  | .list [.atom "echo_formula", f] =>
    match Formula.ofSexp f with
    | some f => f.toSexp
    | none => .list [.atom "bad-request"]
  | .list [.atom "echo_program", p] =>
    match Asp.programOfSexp p with
    | some p => Asp.programToSexp p
    | none => .list [.atom "bad-request"]
  | .list [.atom "gamma", f] =>
    match Formula.ofSexp f with
    | some f => (gamma f).toSexp
    | none => .list [.atom "bad-request"]
  | .list [.atom "substitute", f, v, t] =>
    match Formula.ofSexp f, Var.ofSexp v, GTerm.ofSexp t with
    | some f, some v, some t =>
      if f.substPanics v t then .list [.atom "panic"] else (f.subst v t).toSexp
    | _, _, _ => bad
  | .list [.atom "rewrite", .atom name, f] =>
    match Formula.ofSexp f, rewriteByName name with
    | some f, some r => (r f).toSexp
    | _, _ => bad
  | .list [.atom "simplify", .atom p, .atom s, fuel, f] =>
    match Formula.ofSexp f, portfolioByName p, strategyByName s, fuel.asNat? with
    | some f, some p, some s, some fuel =>
      let (g, ok) := simplifyWith p s fuel f
      .list [.atom (if ok then "ok" else "timeout"), g.toSexp]
    | _, _, _, _ => bad
  | .list [.atom "tau_star", p] =>
    match Asp.programOfSexp p with
    | some p => if globalsPanic p then .list [.atom "panic"] else theoryToSexp (tauStar p)
    | none => bad
  | .list [.atom "natural", p] =>
    match Asp.programOfSexp p with
    | some p => optToSexp theoryToSexp (natural p)
    | none => bad
  | .list [.atom "mu", p] =>
    match Asp.programOfSexp p with
    | some p => if globalsPanic p then .list [.atom "panic"] else theoryToSexp (mu p)
    | none => bad
  | .list [.atom "is_regular", p] =>
    match Asp.programOfSexp p with
    | some p => Sexp.ofBool (isRegular p)
    | none => bad
  | .list [.atom "is_tight", p] =>
    match Asp.programOfSexp p with
    | some p => Sexp.ofBool (isTight p)
    | none => bad
  | .list [.atom "private_recursion", p, priv] =>
    match Asp.programOfSexp p, listOf Pred.ofSexp priv with
    | some p, some priv => Sexp.ofBool (hasPrivateRecursion p priv)
    | _, _ => bad
  | .list [.atom "completion", t, inputs] =>
    match theoryOfSexp t, listOf Pred.ofSexp inputs with
    | some t, some inputs => optToSexp theoryToSexp (completion t inputs)
    | _, _ => bad
  | .list [.atom "break_eq", f] =>
    match Formula.ofSexp f with
    | some f => theoryToSexp (breakEquivalencesFormula f)
    | none => bad
  | .list [.atom "strong", l, r, .atom dec, .atom dir, .atom rep, simp, brk, fuel] =>
    match Asp.programOfSexp l, Asp.programOfSexp r, Decomposition.ofName dec, Direction.ofName dir,
        FormulaRep.ofName rep, simp.asBool?, brk.asBool?, fuel.asNat? with
    | some l, some r, some dec, some dir, some rep, some simp, some brk, some fuel =>
      let t : StrongTask := ⟨l, r, dec, dir, rep, simp, brk⟩
      if strongPanics t then .list [.atom "panic"]
      else match strongProblems t fuel with
        | some ps => .list (ps.map Problem.toSexp)
        | none => .list [.atom "timeout"]
    | _, _, _, _, _, _, _, _ => bad
  | .list [.atom "tptp_formula", f] =>
    match Formula.ofSexp f with
    | some f =>
      if f.tptpPanics then .list [.atom "panic"]
      else
        -- the text model must read back (TPTP reading rules) as the TFF tree `tr f`
        let text := tptpFormula f
        match TffParse.parse f.fcs text with
        | some t =>
          if TffParse.beq (TffParse.flat t) (TffParse.flat (tr f)) then .str text
          else .list [.atom "parse-back-mismatch", .str text]
        | none => .list [.atom "parse-back-failed", .str text]
    | none => bad
  | .list [.atom "cex_tptp", f, .str text, seed, tries] =>
    match Formula.ofSexp f, seed.asNat?, tries.asNat? with
    | some f, some seed, some tries =>
      match TffParse.parse f.fcs text with
      | none => .list [.atom "unparsable"]
      | some t =>
        if TffParse.beq (TffParse.flat t) (TffParse.flat (tr f)) then .list [.atom "same-tree"]
        else cexEquiv false f (TffParse.untr t) seed tries
    | _, _, _ => bad
  | .list [.atom "strong_text", l, r, .atom dec, .atom dir, .atom rep, simp, brk, fuel] =>
    match Asp.programOfSexp l, Asp.programOfSexp r, Decomposition.ofName dec, Direction.ofName dir,
        FormulaRep.ofName rep, simp.asBool?, brk.asBool?, fuel.asNat? with
    | some l, some r, some dec, some dir, some rep, some simp, some brk, some fuel =>
      let t : StrongTask := ⟨l, r, dec, dir, rep, simp, brk⟩
      if strongPanics t then .list [.atom "panic"]
      else match strongProblems t fuel with
        | some ps =>
          if ps.any Problem.tptpPanics then .list [.atom "panic"]
          else .list (ps.map fun p => .list [.str p.name, .str p.tptpText])
        | none => .list [.atom "timeout"]
    | _, _, _, _, _, _, _, _ => bad
  | .list [.atom "strong_hygiene", l, r, .atom dec, .atom dir, .atom rep, simp, brk, fuel] =>
    match Asp.programOfSexp l, Asp.programOfSexp r, Decomposition.ofName dec, Direction.ofName dir,
        FormulaRep.ofName rep, simp.asBool?, brk.asBool?, fuel.asNat? with
    | some l, some r, some dec, some dir, some rep, some simp, some brk, some fuel =>
      let t : StrongTask := ⟨l, r, dec, dir, rep, simp, brk⟩
      if strongPanics t then .list [.atom "panic"]
      else match strongProblems t fuel with
        | some ps => .list (ps.map fun p => .list [.str p.name, .list (p.hygieneIssues.map .atom)])
        | none => .list [.atom "timeout"]
    | _, _, _, _, _, _, _, _ => bad
  | .list [.atom mode, spec, prog, ug, po, .atom dec, .atom dir, .atom rep, byp, simp, brk, fuel] =>
    if mode != "external" && mode != "external_text" && mode != "external_hygiene" then bad else
    match specSideOfSexp spec, Asp.programOfSexp prog, listOf UGEntry.ofSexp ug, listOf SAnn.ofSexp po,
        Decomposition.ofName dec, Direction.ofName dir, FormulaRep.ofName rep with
    | some spec, some prog, some ug, some po, some dec, some dir, some rep =>
      match byp.asBool?, simp.asBool?, brk.asBool?, fuel.asNat? with
      | some byp, some simp, some brk, some fuel =>
        let t : ExternalTask := ⟨spec, prog, ug, po, dec, dir, rep, byp, simp, brk⟩
        match externalProblems t fuel with
        | .ok ps =>
          if mode == "external" then .list (ps.map Problem.toSexp)
          else if mode == "external_hygiene" then
            .list (ps.map fun p => .list [.str p.name, .list (p.hygieneIssues.map .atom)])
          else if ps.any Problem.tptpPanics then .list [.atom "panic"]
          else .list (ps.map fun p => .list [.str p.name, .str p.tptpText])
        | .err e => .list [.atom "error", .atom e.name]
        | .panic _ => .list [.atom "panic"]
        | .timeout => .list [.atom "timeout"]
      | _, _, _, _ => bad
    | _, _, _, _, _, _, _ => bad
  | .list [.atom "files_sort", .list args] =>
    match args.mapM ftreeOfSexp with
    | some ts =>
      let f := Files.ofPaths (ts.flatMap (walkPaths ""))
      .list [strs f.programs, strs f.specifications, strs f.userGuides, strs f.proofOutlines, strs f.other,
        optStr f.left, optStr f.right,
        specSexp f.specification,
        optStr f.program, optStr f.userGuide, optStr f.proofOutline]
    | none => bad
  | .list [.atom "status_of", .str out] =>
    match statusOf out with
    | .ok st => .list [.atom "ok", .atom ((reprStr st).replace "Anthem.Status." "")]
    | .missing => .atom "missing"
    | .unknown w => .list [.atom "unknown", .str w]
  | .list [.atom "fol_parse", .atom kind, .str text] =>
    match kind with
    | "theory" =>
      match Fol.parseTheoryChecked text with
      | some t => .list [.atom "ok", theoryToSexp t]
      | none => .list [.atom "error"]
    | "spec" =>
      match Fol.parseSpecificationChecked text with
      | some t => .list [.atom "ok", .list (t.map SAnn.toSexp)]
      | none => .list [.atom "error"]
    | "ug" =>
      match Fol.parseUserGuideChecked text with
      | some t => .list [.atom "ok", .list (t.map UGEntry.toSexp)]
      | none => .list [.atom "error"]
    | _ => bad
  | .list [.atom "asp_parse", .str text] =>
    match Asp.parseProgramChecked text with
    | some p => .list [.atom "ok", Asp.programToSexp p]
    | none => .list [.atom "error"]
  | .list [.atom "print_program", p] =>
    match Asp.programOfSexp p with
    | some p => .str (Asp.printProgram p)
    | none => bad
  | .list [.atom "print_formula", f] =>
    match Formula.ofSexp f with
    | some f => .str f.print
    | none => bad
  | .list [.atom "print_spec", sp] =>
    match listOf SAnn.ofSexp sp with
    | some sp => .str (printSpecification sp)
    | none => bad
  | .list [.atom "print_ug", ug] =>
    match listOf UGEntry.ofSexp ug with
    | some ug => .str (printUserGuide ug)
    | none => bad
  | .list [.atom "decompose", p, .atom dec] =>
    match Problem.ofSexp p, Decomposition.ofName dec with
    | some p, some dec => .list ((p.decompose dec).map Problem.toSexp)
    | _, _ => bad
  | .list [.atom "free_vars", f] =>
    match Formula.ofSexp f with
    | some f => .list (f.fv.map Var.toSexp)
    | none => bad
  | .list [.atom "cex_equiv", .atom mode, f, g, seed, tries] =>
    match Formula.ofSexp f, Formula.ofSexp g, seed.asNat?, tries.asNat? with
    | some f, some g, some seed, some tries => cexEquiv (mode == "ht") f g seed tries
    | _, _, _, _ => bad
  | .list [.atom "cex_prog", p, th, seed, tries] =>
    match Asp.programOfSexp p, listOf Formula.ofSexp th, seed.asNat?, tries.asNat? with
    | some p, some th, some seed, some tries => cexProgram p th (tauStar p) seed tries
    | _, _, _, _ => bad
  | .list [.atom "cex_strong", l, r, .atom dir, probs, seed, tries] =>
    match Asp.programOfSexp l, Asp.programOfSexp r, Direction.ofName dir, listOf Problem.ofSexp probs,
        seed.asNat?, tries.asNat? with
    | some l, some r, some dir, some ps, some seed, some tries =>
      cexStrong l r (dir == .universal || dir == .forward) (dir == .universal || dir == .backward) ps seed tries
    | _, _, _, _, _, _ => bad
  | .list [.atom "cex_external", spec, prog, ug, po, .atom dec, .atom dir, .atom rep, byp, simp, brk, probs, seed, tries] =>
    match specSideOfSexp spec, Asp.programOfSexp prog, listOf UGEntry.ofSexp ug, listOf SAnn.ofSexp po,
        Decomposition.ofName dec, Direction.ofName dir, FormulaRep.ofName rep with
    | some spec, some prog, some ug, some po, some dec, some dir, some rep =>
      match byp.asBool?, simp.asBool?, brk.asBool?, listOf Problem.ofSexp probs, seed.asNat?, tries.asNat? with
      | some byp, some simp, some brk, some ps, some seed, some tries =>
        cexExternal ⟨spec, prog, ug, po, dec, dir, rep, byp, simp, brk⟩ ps seed tries
      | _, _, _, _, _, _ => bad
    | _, _, _, _, _, _, _ => bad
  | .list [.atom "cex_decompose", p, probs, seed, tries] =>
    match Problem.ofSexp p, listOf Problem.ofSexp probs, seed.asNat?, tries.asNat? with
    | some p, some ps, some seed, some tries => cexDecompose p ps seed tries
    | _, _, _, _ => bad
  | .list [.atom "cex_gamma", f, g, seed, tries] =>
    match Formula.ofSexp f, Formula.ofSexp g, seed.asNat?, tries.asNat? with
    | some f, some g, some seed, some tries => cexGamma f g seed tries
    | _, _, _, _ => bad
  | .list [.atom "cex_subst", f, v, t, g, seed, tries] =>
    match Formula.ofSexp f, Var.ofSexp v, GTerm.ofSexp t, Formula.ofSexp g, seed.asNat?, tries.asNat? with
    | some f, some v, some t, some g, some seed, some tries => cexSubst f v t g seed tries
    | _, _, _, _, _, _ => bad
  | _ => bad

partial def loop (h : IO.FS.Stream) (out : IO.FS.Stream) : IO Unit := do
  let line ← h.getLine
  if line.isEmpty then return ()
  let r := match Sexp.parse line with
    | some s => respond s
    | none => .list [.atom "bad-sexp"]
  out.putStrLn r.toStr
  loop h out

def main : IO Unit := do
  let out ← IO.getStdout
  loop (← IO.getStdin) out
