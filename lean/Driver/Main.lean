/-
  Model driver: one request per line `(op arg …)`, one response per line.
  Imports only Syntax/ and Model/ files (core + Std), so that it links as a native executable.
-/
import AnthemModel.Syntax.Wire
import AnthemModel.Model.Gamma
open Anthem

def respond (req : Sexp) : Sexp :=
  match req with
  | .list [.atom "echo_formula", f] =>
    match Formula.ofSexp f with
    | some f => f.toSexp
    | none => .list [.atom "bad-request"]
  | .list [.atom "echo_program", p] =>
    match Asp.programOfSexp p with
    | some p => Asp.programToSexp p
    | none => .list [.atom "bad-request"]
  | .list [.atom "gamma", f] =>
    match Formula.ofSexp f with
    | some f => (gamma f).toSexp
    | none => .list [.atom "bad-request"]
  | _ => .list [.atom "bad-request"]

partial def loop (h : IO.FS.Stream) (out : IO.FS.Stream) : IO Unit := do
  let line ← h.getLine
  if line.isEmpty then return ()
  let r := match Sexp.parse line with
    | some s => respond s
    | none => .list [.atom "bad-sexp"]
  out.putStrLn r.toStr
  loop h out

def main : IO Unit := do
  let out ← IO.getStdout
  loop (← IO.getStdin) out
