/-
  Bounded search for candidate failing inputs (used by `check` only after a proof obligation or
  the correspondence broke). Everything here is a test, never a proof.
-/
import AnthemModel.Syntax.Wire
import AnthemModel.Semantics.Window
import AnthemModel.Model.Gamma
import AnthemModel.Semantics.Asp
import AnthemModel.Model.TauStar
import AnthemModel.Model.Problem
import AnthemModel.Model.External
import AnthemModel.Proofs.ExternalSemPh
open Anthem Anthem.Window

def domToSexp : Dom → Sexp
  | .inf => .atom "#inf" | .sup => .atom "#sup"
  | .num z => Sexp.ofInt z | .sym s => .str s

def extentsToSexp (e : List (String × Nat × List (List Dom))) : Sexp :=
  .list (e.map fun (n, a, ts) => .list [.str n, Sexp.ofNat a, .list (ts.map fun t => .list (t.map domToSexp))])

def asgToSexp (ρ : AsgL) : Sexp := .list (ρ.map fun (v, d) => .list [v.toSexp, domToSexp d])

def witness (T : FinInterp) (hExt : Option (List (String × Nat × List (List Dom)))) (ρ : AsgL)
    (what : String) (a b : Bool) : Sexp :=
  .list ([.atom "found", .list [.atom "what", .str what],
    .list [.atom "ints", .list (T.ints.map Sexp.ofInt)], .list [.atom "syms", .list (T.syms.map .str)],
    .list [.atom "T", extentsToSexp T.preds]] ++
    (match hExt with | some h => [.list [.atom "H", extentsToSexp h]] | none => []) ++
    [.list [.atom "fcs", asgToSexp T.fcs], .list [.atom "assignment", asgToSexp ρ],
     .list [.atom "lhs", Sexp.ofBool a], .list [.atom "rhs", Sexp.ofBool b]])

/-- one random HT interpretation + assignment over the symbols of the given formulas -/
def randomWorld (fs : List Formula) (r : Rng) : FinInterp × FinInterp × AsgL × Rng :=
  let base := baseInterp fs
  let ps := fs.foldl (fun acc f => ext acc f.preds) []
  let cs := fs.foldl (fun acc f => ext acc f.fcs) []
  let vs := fs.foldl (fun acc f => ext acc f.fv) []
  let (text, r1) := randomExtents base ps r
  let (hext, r2) := text.foldl (fun (acc : List (String × Nat × List (List Dom)) × Rng) e =>
      let (dens, ra) := acc.2.below 9
      let (sub, rb) := randomSubset e.2.2 dens ra
      (acc.1 ++ [(e.1, e.2.1, sub)], rb)) ([], r1)
  let (fcs, r3) := randomFcs base cs r2
  let (ρ, r4) := randomAsg base vs r3
  ({ base with preds := hext, fcs := fcs }, { base with preds := text, fcs := fcs }, ρ, r4)

/-- number of window points an evaluation visits at most (product over nested binders) -/
def evalCost (w : Nat) : Formula → Nat
  | .atomic _ => 1
  | .not f => evalCost w f
  | .bin _ l r => evalCost w l + evalCost w r
  | .quant _ vs f => (w ^ vs.length) * evalCost w f

def tooCostly (fs : List Formula) : Bool :=
  fs.any fun f => evalCost 20 f > 200000

partial def searchLoop (tries : Nat) (r : Rng) (step : Rng → Option Sexp × Rng) : Sexp :=
  if tries = 0 then .list [.atom "none"]
  else
    let (res, r') := step r
    match res with
    | some w => w
    | none => searchLoop (tries - 1) r' step

/-- F vs G: HT-equivalent (both worlds) or classically equivalent? -/
def cexEquiv (htMode : Bool) (F G : Formula) (seed tries : Nat) : Sexp :=
  if tooCostly [F, G] then .list [.atom "skipped"] else
  searchLoop tries ⟨seed.toUInt64⟩ fun r =>
    let (H, T, ρ, r') := randomWorld [F, G] r
    let H' := H.widen 5
    let T' := T.widen 5
    if htMode then
      match evalHt H T F true ρ, evalHt H T G true ρ, evalHt H T F false ρ, evalHt H T G false ρ with
      | some a, some b, some c, some d =>
        if a != b && evalHt H' T' F true ρ == some a && evalHt H' T' G true ρ == some b then
          (some (witness T (some H.preds) ρ "HT, world here" a b), r')
        else if c != d && evalHt H' T' F false ρ == some c && evalHt H' T' G false ρ == some d then
          (some (witness T (some H.preds) ρ "HT, world there" c d), r')
        else (none, r')
      | _, _, _, _ => (none, r')
    else
      match evalSat T F ρ, evalSat T G ρ with
      | some a, some b =>
        if a != b && evalSat T' F ρ == some a && evalSat T' G ρ == some b then
          (some (witness T none ρ "classical" a b), r') else (none, r')
      | _, _ => (none, r')

/-- C19: the problems `out` the implementation made of `p` (either decomposition) against the claim of `p`:
    some problem of `out` is refuted iff every axiom of `p` is true and some conjecture of `p` is false
    (`C19.independent_refutes` / `sequential_refutes`). -/
def cexDecompose (p : Problem) (out : List Problem) (seed tries : Nat) : Sexp :=
  let fs := (p.formulas ++ out.flatMap (·.formulas)).map (·.formula)
  if tooCostly fs then .list [.atom "skipped"] else
  searchLoop tries ⟨seed.toUInt64⟩ fun r =>
    let (_, T, ρ, r') := randomWorld fs r
    let refuted := fun (J : FinInterp) (q : Problem) => do
      let ax ← q.formulas.foldl (fun acc a => do
        let b ← acc
        if a.role != .axiom then some b else
        let v ← evalSat J a.formula ρ
        some (b && v)) (some true)
      let cj ← q.formulas.foldl (fun acc a => do
        let b ← acc
        if a.role != .conjecture then some b else
        let v ← evalSat J a.formula ρ
        some (b || !v)) (some false)
      some (ax && cj)
    let lhs := fun (J : FinInterp) => out.foldl (fun acc q => do
      let b ← acc
      let v ← refuted J q
      some (b || v)) (some false)
    match lhs T, refuted T p with
    | some a, some b =>
      if a != b && lhs (T.widen 5) == some a && refuted (T.widen 5) p == some b then
        (some (witness T none ρ "some emitted problem refuted  vs  axioms true and a conjecture false in the undecomposed problem" a b), r')
      else (none, r')
    | _, _ => (none, r')

/-- gamma: `ht (H,T) here F` vs `sat (merge H T) G` where G is the implementation's gamma(F). -/
def cexGamma (F G : Formula) (seed tries : Nat) : Sexp :=
  if tooCostly [F, G] then .list [.atom "skipped"] else
  searchLoop tries ⟨seed.toUInt64⟩ fun r =>
    let (H, T, ρ, r') := randomWorld [F] r
    let hp := H.preds.map (fun (e : String × Nat × List (List Dom)) => ("h" ++ e.1, e.2.1, e.2.2))
    let tp := T.preds.map (fun (e : String × Nat × List (List Dom)) => ("t" ++ e.1, e.2.1, e.2.2))
    let merged : FinInterp := { T with preds := hp ++ tp }
    match evalHt H T F true ρ, evalSat merged G ρ with
    | some a, some b =>
      if a != b && evalHt (H.widen 5) (T.widen 5) F true ρ == some a && evalSat (merged.widen 5) G ρ == some b then
        (some (witness T (some H.preds) ρ "ht(H,T) here F  vs  merged |= impl-gamma(F)" a b), r')
      else (none, r')
    | _, _ => (none, r')

/-- substitution: `sat G ρ` vs `sat F ρ[v ↦ ⟦t⟧ρ]` where G is the implementation's F[v:=t]. -/
def cexSubst (F : Formula) (v : Var) (t : GTerm) (G : Formula) (seed tries : Nat) : Sexp :=
  if tooCostly [F, G] then .list [.atom "skipped"] else
  searchLoop tries ⟨seed.toUInt64⟩ fun r =>
    let dummy : Formula := .atomic (.atom ⟨"__t", [t, v.toTerm]⟩)
    let (_, T, ρ, r') := randomWorld [F, G, dummy] r
    match evalG T ρ t with
    | none => (none, r')
    | some d =>
      match evalSat T G ρ, evalSat T F ((v, d) :: ρ) with
      | some a, some b =>
        if a != b && evalSat (T.widen 5) G ρ == some a && evalSat (T.widen 5) F ((v, d) :: ρ) == some b then
          (some (witness T none ρ "impl F[v:=t] at rho  vs  F at rho[v := value of t]" a b), r')
        else (none, r')
      | _, _ => (none, r')

/-! ## bounded reference semantics of mini-gringo (search only) -/

instance (r : Anthem.Asp.Rel) (a b : Dom) : Decidable (r.holds a b) := by
  cases r <;> simp only [Anthem.Asp.Rel.holds] <;> infer_instance

open Anthem.Asp in
/-- the values of a term under a finite substitution; `none` = an interval too long to enumerate -/
def valsB (σ : List (String × Dom)) : Term → Option (List Dom)
  | .pre p => some [p.toDom]
  | .var x => some [match σ.find? (·.1 = x) with | some p => p.2 | none => .num 0]
  | .neg t => do
    let vs ← valsB σ t
    some (vs.filterMap fun d => match d with | .num n => some (.num (0 - n)) | _ => none)
  | .bin op l r => do
    let as ← valsB σ l
    let bs ← valsB σ r
    let pairs := as.flatMap fun a => bs.filterMap fun b =>
      match a, b with | .num x, .num y => some (x, y) | _, _ => none
    match op with
    | .add => some (pairs.map fun (x, y) => .num (x + y))
    | .sub => some (pairs.map fun (x, y) => .num (x - y))
    | .mul => some (pairs.map fun (x, y) => .num (x * y))
    | .div => some (pairs.filterMap fun (x, y) => if 0 < y then some (.num (x / y)) else none)
    | .mod => some (pairs.filterMap fun (x, y) => if 0 < y then some (.num (x % y)) else none)
    | .interval =>
      if pairs.any (fun (x, y) => y - x > 40) then none
      else some (pairs.flatMap fun (x, y) =>
        (List.range (y - x + 1).toNat).map fun (k : Nat) => .num (x + (k : Int)))

open Anthem.Asp in
def tuplesB (σ : List (String × Dom)) : List Term → Option (List (List Dom))
  | [] => some [[]]
  | t :: ts => do
    let vs ← valsB σ t
    let rest ← tuplesB σ ts
    some (vs.flatMap fun v => rest.map fun r => v :: r)

open Anthem.Asp in
def bodyAtomB (H T : FinInterp) (here : Bool) (σ : List (String × Dom)) : BodyAtom → Option Bool
  | .lit ⟨s, a⟩ => do
    let tups ← tuplesB σ a.args
    match s with
    | .pos => some (tups.any fun ds => (if here then H else T).holds a.pred ds)
    | .neg => some (tups.any fun ds => !T.holds a.pred ds)
    | .negneg => some (tups.any fun ds => T.holds a.pred ds)
  | .cmp rel l r => do
    let as ← valsB σ l
    let bs ← valsB σ r
    some (as.any fun a => bs.any fun b => decide (rel.holds a b))

open Anthem.Asp in
def headB (H T : FinInterp) (here : Bool) (σ : List (String × Dom)) : Head → Option Bool
  | .falsity => some false
  | .basic a => do
    let tups ← tuplesB σ a.args
    some (tups.all fun ds => (if here then H else T).holds a.pred ds)
  | .choice a => do
    let tups ← tuplesB σ a.args
    some (tups.all fun ds => (if here then H else T).holds a.pred ds || !T.holds a.pred ds)

def substsB (dom : List Dom) : List String → List (List (String × Dom))
  | [] => [[]]
  | x :: xs => (substsB dom xs).flatMap fun σ => dom.map fun d => (x, d) :: σ

open Anthem.Asp in
/-- HT satisfaction of a rule at a world, substitutions ranging over the window -/
def ruleB (H T : FinInterp) (here : Bool) (r : Rule) : Option Bool :=
  (substsB (T.window .general) r.vars).foldl (fun acc σ => do
    let ok ← acc
    let inst := fun (w : Bool) => do
      let bs ← r.body.mapM (bodyAtomB H T w σ)
      if bs.all id then headB H T w σ r.head else some true
    let a ← inst here
    let b ← inst false
    some (ok && a && b)) (some true)

open Anthem.Asp in
def progB (H T : FinInterp) (here : Bool) (p : Program) : Option Bool :=
  p.foldl (fun acc r => do let a ← acc; let b ← ruleB H T here r; some (a && b)) (some true)

/-! short-circuit evaluation (integer terms are exact, so nothing is ever tainted) -/

def evalIF (I : FinInterp) (ρ : AsgL) : ITerm → Int
  | .num n => n
  | .fc c => (I.fc c .integer).toInt
  | .var x => (lookup ρ ⟨x, .integer⟩).toInt
  | .neg t => - evalIF I ρ t
  | .bin op l r =>
    let a := evalIF I ρ l
    let b := evalIF I ρ r
    match op with | .add => a + b | .sub => a - b | .mul => a * b

def evalGF (I : FinInterp) (ρ : AsgL) : GTerm → Dom
  | .inf => .inf
  | .sup => .sup
  | .fc c => I.fc c .general
  | .var x => lookup ρ ⟨x, .general⟩
  | .int t => .num (evalIF I ρ t)
  | .symb t => .sym (evalS I ρ t)

def evalChainF (I : FinInterp) (ρ : AsgL) : Dom → List Guard → Bool
  | _, [] => true
  | d, g :: gs =>
    let e := evalGF I ρ g.term
    decide (g.rel.holds d e) && evalChainF I ρ e gs

def evalAtomicF (I : FinInterp) (ρ : AsgL) : AtomicF → Bool
  | .tru => true
  | .fls => false
  | .atom a => I.holds a.pred (a.args.map (evalGF I ρ))
  | .cmp t gs => evalChainF I ρ (evalGF I ρ t) gs

def bindAllF (I : FinInterp) : List Var → (AsgL → Bool) → AsgL → Bool
  | [], P, ρ => P ρ
  | v :: vs, P, ρ => (I.window v.sort).all fun d => bindAllF I vs P ((v, d) :: ρ)

def bindExF (I : FinInterp) : List Var → (AsgL → Bool) → AsgL → Bool
  | [], P, ρ => P ρ
  | v :: vs, P, ρ => (I.window v.sort).any fun d => bindExF I vs P ((v, d) :: ρ)

def evalHtF (H T : FinInterp) : Formula → Bool → AsgL → Bool
  | .atomic a, here, ρ => evalAtomicF (if here then H else T) ρ a
  | .not f, _, ρ => !evalHtF H T f false ρ
  | .bin .and l r, here, ρ => evalHtF H T l here ρ && evalHtF H T r here ρ
  | .bin .or l r, here, ρ => evalHtF H T l here ρ || evalHtF H T r here ρ
  | .bin .imp l r, here, ρ =>
    (!evalHtF H T l here ρ || evalHtF H T r here ρ) && (!evalHtF H T l false ρ || evalHtF H T r false ρ)
  | .bin .rimp l r, here, ρ =>
    (!evalHtF H T r here ρ || evalHtF H T l here ρ) && (!evalHtF H T r false ρ || evalHtF H T l false ρ)
  | .bin .iff l r, here, ρ =>
    ((!evalHtF H T l here ρ || evalHtF H T r here ρ) && (!evalHtF H T l false ρ || evalHtF H T r false ρ)) &&
    ((!evalHtF H T r here ρ || evalHtF H T l here ρ) && (!evalHtF H T r false ρ || evalHtF H T l false ρ))
  | .quant .all vs f, here, ρ => bindAllF T vs (evalHtF H T f here) ρ
  | .quant .ex vs f, here, ρ => bindExF T vs (evalHtF H T f here) ρ

def theoryB (H T : FinInterp) (here : Bool) (Γ : Theory) : Option Bool :=
  some (Γ.all fun F => evalHtF H T F here [])

/-- evaluation cost with the actual window sizes -/
def evalCostW (I : FinInterp) : Formula → Nat
  | .atomic _ => 1
  | .not f => evalCostW I f
  | .bin _ l r => evalCostW I l + evalCostW I r
  | .quant _ vs f => (vs.foldl (fun acc v => acc * (I.window v.sort).length) 1) * evalCostW I f

/-- a small window for whole translated programs: −1..3 and the numerals mentioned, one or two symbols -/
def smallInterp (fs : List Formula) : FinInterp :=
  let nums := (fs.flatMap formulaNums).filter fun n => -4 ≤ n ∧ n ≤ 6
  let ints := nums.foldl ins [-1, 0, 1, 2, 3]
  let syms := ((fs.flatMap Formula.symbols).foldl ins ["a"]).take 2
  { ints := ints.mergeSort (· ≤ ·), syms := syms, preds := [], fcs := [] }

def randomWorldIn (base : FinInterp) (fs : List Formula) (r : Rng) : FinInterp × FinInterp × Rng :=
  let ps := fs.foldl (fun acc f => ext acc f.preds) []
  let cs := fs.foldl (fun acc f => ext acc f.fcs) []
  let (text, r1) := randomExtents base ps r
  let (hext, r2) := text.foldl (fun (acc : List (String × Nat × List (List Dom)) × Rng) e =>
      let (dens, ra) := acc.2.below 9
      let (sub, rb) := randomSubset e.2.2 dens ra
      (acc.1 ++ [(e.1, e.2.1, sub)], rb)) ([], r1)
  let (fcs, r3) := randomFcs base cs r2
  ({ base with preds := hext, fcs := fcs }, { base with preds := text, fcs := fcs }, r3)

open Anthem.Asp in
/-- a translation `Γ` (by the implementation) of program `P`: an HT interpretation that satisfies one
    but not the other (window search, confirmed on a wider window) -/
def cexProgram (P : Program) (Γ ref : Theory) (seed tries : Nat) : Sexp :=
  let base := smallInterp (Γ ++ ref)
  if Γ.any (fun F => evalCostW base F > 2000000) || P.any (fun r => r.vars.length > 4) then .list [.atom "skipped"] else
  searchLoop tries ⟨seed.toUInt64⟩ fun r =>
    let (H, T, r') := randomWorldIn base (Γ ++ ref) r
    let check := fun (here : Bool) =>
      match theoryB H T here Γ, progB H T here P with
      | some a, some b =>
        if a != b && theoryB (H.widen 2) (T.widen 2) here Γ == some a &&
            progB (H.widen 2) (T.widen 2) here P == some b then
          some (witness T (some H.preds) []
            ("implementation's theory vs reference semantics of the program, world " ++ (if here then "here" else "there")) a b)
        else none
      | _, _ => none
    match check true with
    | some w => (some w, r')
    | none => (check false, r')

/-! ## strong equivalence: emitted problems vs the reference semantics of the two programs -/

def mergedInterp (H T : FinInterp) : FinInterp :=
  { T with preds :=
      H.preds.map (fun (e : String × Nat × List (List Dom)) => ("h" ++ e.1, e.2.1, e.2.2)) ++
      T.preds.map (fun (e : String × Nat × List (List Dom)) => ("t" ++ e.1, e.2.1, e.2.2)) }

def refutedB (J : FinInterp) (p : Problem) : Bool :=
  (p.formulas.all fun a => a.role != .axiom || evalHtF J J a.formula false []) &&
  (p.formulas.any fun a => a.role == .conjecture && !evalHtF J J a.formula false [])

def subOnB (H T : FinInterp) : Bool :=
  H.preds.all fun e => e.2.2.all fun tup => T.holds e.1 tup

open Anthem.Asp in
def cexStrong (left right : Program) (fwd bwd : Bool) (ps : List Problem) (seed tries : Nat) : Sexp :=
  let fs := ps.flatMap fun p => p.formulas.map (·.formula)
  let ref := tauStar left ++ tauStar right
  let base := smallInterp ref
  if fs.any (fun F => evalCostW base F > 2000000) || (left ++ right).any (fun r => r.vars.length > 4) then
    .list [.atom "skipped"] else
  searchLoop tries ⟨seed.toUInt64⟩ fun r =>
    let (H0, T, r1) := randomWorldIn base ref r
    -- one time in four an `H` that is not below `T`
    let (k, r2) := r1.below 4
    let (H, r') := if k == 0 then
        let (H', _, r3) := randomWorldIn base ref r2
        ({ H0 with preds := H'.preds }, r3)
      else (H0, r2)
    let eval := fun (H T : FinInterp) =>
      let J0 := mergedInterp H T
      -- propositional h-/t-copies that clash with a symbolic constant are renamed `<copy>_p…` in the problems
      let syms := ext left.symbols right.symbols
      let probPreds := ps.foldl (fun acc p => ext acc (p.preds.filter (·.arity = 0))) []
      let extra := probPreds.filterMap fun q =>
        if J0.preds.any (fun e => e.1 == q.symbol && e.2.1 == 0) then none else
        (J0.preds.find? fun e => e.2.1 == 0 && syms.contains e.1 && q.symbol.startsWith (e.1 ++ "_p")).map
          fun e => (q.symbol, 0, e.2.2)
      let J := { J0 with preds := J0.preds ++ extra }
      let refuted := ps.any (refutedB J)
      match progB H T true left, progB H T true right with
      | some l, some rr =>
        some (refuted, subOnB H T && ((fwd && l && !rr) || (bwd && rr && !l)))
      | _, _ => none
    match eval H T, eval (H.widen 2) (T.widen 2) with
    | some (a, b), some (a', b') =>
      if a != b && a == a' && b == b' then
        (some (witness T (some H.preds) []
          "some emitted problem refuted by the merged interpretation  vs  H subset T and (H,T) separates the programs in a requested direction" a b), r')
      else (none, r')
    | _, _ => (none, r')

/-! ## external equivalence (program against program, no placeholders, no proof outline):
    emitted problems vs the reference semantics of the two programs -/

def restrictInterp (I : FinInterp) (sig : List Pred) : FinInterp :=
  { I with preds := I.preds.filter fun e => sig.contains ⟨e.1, e.2.1⟩ }

/-- all sub-interpretations of `T` that keep the input extents; `none` when there are too many -/
def subInterps (T : FinInterp) (ins : List Pred) : Option (List FinInterp) :=
  let free := T.preds.flatMap fun e => if ins.contains ⟨e.1, e.2.1⟩ then [] else e.2.2.map fun t => (e.1, e.2.1, t)
  if free.length > 10 then none else
  let subsets := free.foldl (fun (acc : List (List (String × Nat × List Dom))) a => acc ++ acc.map (a :: ·)) [[]]
  some (subsets.filterMap fun sub =>
    if sub.length == free.length then none else
    some { T with preds := T.preds.map fun e =>
      if ins.contains ⟨e.1, e.2.1⟩ then e
      else (e.1, e.2.1, e.2.2.filter fun t => sub.any fun a => a.1 == e.1 && a.2.1 == e.2.1 && a.2.2 == t) })

open Anthem.Asp in
/-- bounded stable-model test with input predicates -/
def stableB (P : Program) (ins : List Pred) (J : FinInterp) : Option Bool := do
  let T := restrictInterp J (ext P.preds ins)
  let sat ← progB T T false P
  if !sat then some false else
  let subs ← subInterps T ins
  let anyModel ← subs.foldl (fun acc H => do
    let a ← acc
    if a then some true else progB H T true P) (some false)
  some (!anyModel)

open Anthem.Asp in
/-- the private predicates have exactly the supported extents (classical completion of their rules) -/
def privSupportedB (P : Program) (priv : List Pred) (J : FinInterp) : Option Bool :=
  priv.foldl (fun acc q => do
    let ok ← acc
    let dom := J.window .general
    let tups := tuples dom q.arity
    let rules := P.filter fun r => r.head.predicate == some q
    let good ← tups.foldl (fun acc2 ds => do
      let ok2 ← acc2
      let supported ← rules.foldl (fun acc3 r => do
        let s ← acc3
        if s then some true else
        (substsB dom r.vars).foldl (fun acc4 σ => do
          let s4 ← acc4
          if s4 then some true else
          let bs ← r.body.mapM (bodyAtomB J J false σ)
          if !bs.all id then some false else
          match r.head.terms with
          | some args => do
            let hs ← tuplesB σ args
            some (hs.contains ds)
          | none => some false) (some false)) (some false)
      some (ok2 && (J.holds q.symbol ds == supported))) (some true)
    some (ok && good)) (some true)

/-- read the right program's clashing private predicates through their renamed copies -/
def renamedView (clash : List (Pred × String)) (J : FinInterp) : FinInterp :=
  { J with preds := J.preds.filterMap fun e =>
      if clash.any (fun x => x.1 == (⟨e.1, e.2.1⟩ : Pred)) then none
      else
        match clash.find? (fun x => renamedPred x.1 x.2 == (⟨e.1, e.2.1⟩ : Pred)) with
        | some x => some (x.1.symbol, e.2.1, e.2.2)
        | none => some e }

open Anthem.Asp in
/-- one bottom-up pass: add the heads of the basic rules (and, by coin flip, of the choice rules)
    whose bodies hold in `T`; only predicates in `only` (all when empty) are touched -/
def growOnce (P : Program) (only : List Pred) (T : FinInterp) (r : Rng) : FinInterp × Rng :=
  P.foldl (fun (acc : FinInterp × Rng) rule =>
    match rule.head with
    | .falsity => acc
    | .basic a | .choice a =>
      if !only.isEmpty && !only.contains a.predicate then acc else
      let isChoice := match rule.head with | .choice _ => true | _ => false
      (substsB (T.window .general) rule.vars).foldl (fun (acc2 : FinInterp × Rng) σ =>
        let I := acc2.1
        match rule.body.mapM (bodyAtomB I I false σ), tuplesB σ a.args with
        | some bs, some hs =>
          if !bs.all id then acc2 else
          let (k, r') := if isChoice then acc2.2.below 2 else (0, acc2.2)
          if k == 1 then (I, r') else
          let hs := hs.filter fun ds => ds.all fun d => (I.window .general).contains d
          let preds :=
            if I.preds.any (fun e => e.1 == a.pred && e.2.1 == a.args.length) then
              I.preds.map fun e => if e.1 == a.pred && e.2.1 == a.args.length
                then (e.1, e.2.1, hs.foldl (fun l ds => if l.contains ds then l else l ++ [ds]) e.2.2) else e
            else I.preds ++ [(a.pred, a.args.length, hs.foldl (fun l ds => if l.contains ds then l else l ++ [ds]) [])]
          ({ I with preds := preds }, r')
        | _, _ => acc2) acc) (T, r)

open Anthem.Asp in
def growN (P : Program) (only : List Pred) : Nat → FinInterp → Rng → FinInterp × Rng
  | 0, T, r => (T, r)
  | n + 1, T, r =>
    let (T', r') := growOnce P only T r
    growN P only n T' r'

open Anthem.Asp in
def cexExternal (t : ExternalTask) (ps : List Problem) (seed tries : Nat) : Sexp :=
  if !t.proofOutline.isEmpty then .list [.atom "skipped-outline"] else
  let m := mkPlaceholderMap t.userGuide.placeholders
  let (PL0, S) : Program × Specification := match t.specification with
    | .inl PL => (PL, [])
    | .inr S => ([], S.map (SAnn.replacePlaceholders m))
  let isProg := match t.specification with | .inl _ => true | .inr _ => false
  let fs := ps.flatMap fun p => p.formulas.map (·.formula)
  let ref := tauStar PL0 ++ tauStar t.program ++ S.map (·.formula)
  -- only tasks without arithmetic: every value of a term is a constant of the task or a window element,
  -- so the evaluation over a window that contains all mentioned constants is exact for that structure
  let arith : Term → Bool := fun t => (match t with | .pre _ | .var _ => false | _ => true)
  let bodyTermsOf : BodyAtom → List Term := fun b => (match b with | .lit l => l.atom.args | .cmp _ l r => [l, r])
  let ruleTerms := fun (r : Rule) => (r.head.terms.getD []) ++ r.body.flatMap bodyTermsOf
  let nums := ((ref.flatMap formulaNums) ++ (fs.flatMap formulaNums)).foldl ins [0]
  let symsAll := ((ref ++ fs).flatMap Formula.symbols).foldl ins ["a"]
  if (PL0 ++ t.program).any (fun r => (ruleTerms r).any arith) || nums.length > 3 || symsAll.length > 3 then
    .list [.atom "skipped-arith"] else
  let base : FinInterp := { ints := nums.mergeSort (· ≤ ·), syms := symsAll, preds := [], fcs := [] }
  if fs.any (fun F => evalCostW base F > 400000) || (PL0 ++ t.program).any (fun r => r.vars.length > 3) then
    .list [.atom "skipped"] else
  let ins := t.userGuide.inputs
  let clash := t.clashMap
  let allPreds := ext (ext (ext (ext PL0.preds t.program.preds) ins) (clash.map fun x => renamedPred x.1 x.2)) (specPreds S)
  let fwd := t.direction == .universal || t.direction == .forward
  let bwd := t.direction == .universal || t.direction == .backward
  let ugs := (t.userGuide.formulas.filter fun a => a.role == .assumption).map (SAnn.replacePlaceholders m)
  searchLoop tries ⟨seed.toUInt64⟩ fun r =>
    let (fcs, rf) := randomFcs base t.userGuide.placeholders r
    let baseF := { base with fcs := fcs }
    let ν := phNu m (fun c s => baseF.fc c s)
    let PL := PL0.substSym ν
    let PR := t.program.substSym ν
    let (mode, r0) := rf.below 4
    let (text, ra) := randomExtents baseF (if mode == 0 then allPreds else ins) r0
    let empty : List (String × Nat × List (List Dom)) := allPreds.filterMap fun q =>
      if text.any (fun e => e.1 == q.symbol && e.2.1 == q.arity) then none else some (q.symbol, q.arity, [])
    let J0 : FinInterp := { baseF with preds := text ++ empty }
    let (J, r1) :=
      if mode == 0 then (J0, ra) else
      let (first, second) := if mode == 2 || !isProg then (PR, PL) else (PL, PR)
      let (J1, rb) := growN first [] 4 J0 ra
      let privSecond := if mode == 2 || !isProg then t.specPrivate else t.progPrivate
      let (J2, rc) := if isProg then growN second privSecond 3 J1 rb else (J1, rb)
      let copyOf := fun (e : String × Nat × List (List Dom)) =>
        (clash.find? (fun x => renamedPred x.1 x.2 == (⟨e.1, e.2.1⟩ : Pred))).bind fun x =>
          J2.preds.find? (fun e' => e'.1 == x.1.symbol && e'.2.1 == x.1.arity)
      let newPreds := J2.preds.map fun e => ((copyOf e).map fun e' => (e.1, e.2.1, e'.2.2)).getD e
      let J3 : FinInterp := { J2 with preds := newPreds }
      if mode == 3 then
        let (k, rd) := rc.below (J3.preds.length + 1)
        ({ J3 with preds := J3.preds.mapIdx fun i e => if i == k then (e.1, e.2.1, e.2.2.drop 1) else e }, rd)
      else (J3, rc)
    let eval := fun (J : FinInterp) => do
      let refuted := ps.any (refutedB J)
      let ug := ugs.all fun a => evalHtF J J a.formula false []
      let JR := renamedView clash J
      let emptyOut := fun (P : Program) (I : FinInterp) =>
        (missingOutputs t P).all fun q => (tuples (I.window .general) q.arity).all fun ds => !I.holds q.symbol ds
      let sr0 ← stableB PR ins JR
      let sr := sr0 && emptyOut t.program JR
      let pr ← privSupportedB PR t.progPrivate JR
      if isProg then do
        let sl0 ← stableB PL ins J
        let sl := sl0 && emptyOut PL0 J
        let pl ← privSupportedB PL t.specPrivate J
        some (refuted, ug && ((fwd && sl && pr && !sr) || (bwd && sr && pl && !sl)))
      else
        let tr := fun (a : SAnn) => evalHtF J J a.formula false []
        let st := S.all fun a => !lStable a || tr a
        let fp := S.all fun a => !lFwdPrem a || tr a
        let bc := S.any fun a => lBwdConc a && !tr a
        some (refuted, ug && st && pr && ((fwd && fp && !sr) || (bwd && sr && bc)))
    match eval J, eval J with
    | some (a, b), some (a', b') =>
      if a != b && a == a' && b == b' then
        (some (witness J none []
          "some emitted problem refuted by the interpretation  vs  it witnesses a difference between the two sides (reference semantics over the finite structure shown, placeholders replaced by their values; task without arithmetic)" a b), r1)
      else (none, r1)
    | _, _ => (none, r1)
