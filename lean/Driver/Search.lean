/-
  Bounded search for candidate failing inputs (used by `check` only after a proof obligation or
  the correspondence broke). Everything here is a test, never a proof.
-/
import AnthemModel.Syntax.Wire
import AnthemModel.Semantics.Window
import AnthemModel.Model.Gamma
open Anthem Anthem.Window

def domToSexp : Dom → Sexp
  | .inf => .atom "#inf" | .sup => .atom "#sup"
  | .num z => Sexp.ofInt z | .sym s => .str s

def extentsToSexp (e : List (String × Nat × List (List Dom))) : Sexp :=
  .list (e.map fun (n, a, ts) => .list [.str n, Sexp.ofNat a, .list (ts.map fun t => .list (t.map domToSexp))])

def asgToSexp (ρ : AsgL) : Sexp := .list (ρ.map fun (v, d) => .list [v.toSexp, domToSexp d])

def witness (T : FinInterp) (hExt : Option (List (String × Nat × List (List Dom)))) (ρ : AsgL)
    (what : String) (a b : Bool) : Sexp :=
  .list ([.atom "found", .list [.atom "what", .str what],
    .list [.atom "ints", .list (T.ints.map Sexp.ofInt)], .list [.atom "syms", .list (T.syms.map .str)],
    .list [.atom "T", extentsToSexp T.preds]] ++
    (match hExt with | some h => [.list [.atom "H", extentsToSexp h]] | none => []) ++
    [.list [.atom "fcs", asgToSexp T.fcs], .list [.atom "assignment", asgToSexp ρ],
     .list [.atom "lhs", Sexp.ofBool a], .list [.atom "rhs", Sexp.ofBool b]])

/-- one random HT interpretation + assignment over the symbols of the given formulas -/
def randomWorld (fs : List Formula) (r : Rng) : FinInterp × FinInterp × AsgL × Rng :=
  let base := baseInterp fs
  let ps := fs.foldl (fun acc f => ext acc f.preds) []
  let cs := fs.foldl (fun acc f => ext acc f.fcs) []
  let vs := fs.foldl (fun acc f => ext acc f.fv) []
  let (text, r1) := randomExtents base ps r
  let (hext, r2) := text.foldl (fun (acc : List (String × Nat × List (List Dom)) × Rng) e =>
      let (dens, ra) := acc.2.below 9
      let (sub, rb) := randomSubset e.2.2 dens ra
      (acc.1 ++ [(e.1, e.2.1, sub)], rb)) ([], r1)
  let (fcs, r3) := randomFcs base cs r2
  let (ρ, r4) := randomAsg base vs r3
  ({ base with preds := hext, fcs := fcs }, { base with preds := text, fcs := fcs }, ρ, r4)

/-- number of window points an evaluation visits at most (product over nested binders) -/
def evalCost (w : Nat) : Formula → Nat
  | .atomic _ => 1
  | .not f => evalCost w f
  | .bin _ l r => evalCost w l + evalCost w r
  | .quant _ vs f => (w ^ vs.length) * evalCost w f

def tooCostly (fs : List Formula) : Bool :=
  fs.any fun f => evalCost 20 f > 200000

partial def searchLoop (tries : Nat) (r : Rng) (step : Rng → Option Sexp × Rng) : Sexp :=
  if tries = 0 then .list [.atom "none"]
  else
    let (res, r') := step r
    match res with
    | some w => w
    | none => searchLoop (tries - 1) r' step

/-- F vs G: HT-equivalent (both worlds) or classically equivalent? -/
def cexEquiv (htMode : Bool) (F G : Formula) (seed tries : Nat) : Sexp :=
  if tooCostly [F, G] then .list [.atom "skipped"] else
  searchLoop tries ⟨seed.toUInt64⟩ fun r =>
    let (H, T, ρ, r') := randomWorld [F, G] r
    let H' := H.widen 5
    let T' := T.widen 5
    if htMode then
      match evalHt H T F true ρ, evalHt H T G true ρ, evalHt H T F false ρ, evalHt H T G false ρ with
      | some a, some b, some c, some d =>
        if a != b && evalHt H' T' F true ρ == some a && evalHt H' T' G true ρ == some b then
          (some (witness T (some H.preds) ρ "HT, world here" a b), r')
        else if c != d && evalHt H' T' F false ρ == some c && evalHt H' T' G false ρ == some d then
          (some (witness T (some H.preds) ρ "HT, world there" c d), r')
        else (none, r')
      | _, _, _, _ => (none, r')
    else
      match evalSat T F ρ, evalSat T G ρ with
      | some a, some b =>
        if a != b && evalSat T' F ρ == some a && evalSat T' G ρ == some b then
          (some (witness T none ρ "classical" a b), r') else (none, r')
      | _, _ => (none, r')

/-- gamma: `ht (H,T) here F` vs `sat (merge H T) G` where G is the implementation's gamma(F). -/
def cexGamma (F G : Formula) (seed tries : Nat) : Sexp :=
  if tooCostly [F, G] then .list [.atom "skipped"] else
  searchLoop tries ⟨seed.toUInt64⟩ fun r =>
    let (H, T, ρ, r') := randomWorld [F] r
    let hp := H.preds.map (fun (e : String × Nat × List (List Dom)) => ("h" ++ e.1, e.2.1, e.2.2))
    let tp := T.preds.map (fun (e : String × Nat × List (List Dom)) => ("t" ++ e.1, e.2.1, e.2.2))
    let merged : FinInterp := { T with preds := hp ++ tp }
    match evalHt H T F true ρ, evalSat merged G ρ with
    | some a, some b =>
      if a != b && evalHt (H.widen 5) (T.widen 5) F true ρ == some a && evalSat (merged.widen 5) G ρ == some b then
        (some (witness T (some H.preds) ρ "ht(H,T) here F  vs  merged |= impl-gamma(F)" a b), r')
      else (none, r')
    | _, _ => (none, r')

/-- substitution: `sat G ρ` vs `sat F ρ[v ↦ ⟦t⟧ρ]` where G is the implementation's F[v:=t]. -/
def cexSubst (F : Formula) (v : Var) (t : GTerm) (G : Formula) (seed tries : Nat) : Sexp :=
  if tooCostly [F, G] then .list [.atom "skipped"] else
  searchLoop tries ⟨seed.toUInt64⟩ fun r =>
    let dummy : Formula := .atomic (.atom ⟨"__t", [t, v.toTerm]⟩)
    let (_, T, ρ, r') := randomWorld [F, G, dummy] r
    match evalG T ρ t with
    | none => (none, r')
    | some d =>
      match evalSat T G ρ, evalSat T F ((v, d) :: ρ) with
      | some a, some b =>
        if a != b && evalSat (T.widen 5) G ρ == some a && evalSat (T.widen 5) F ((v, d) :: ρ) == some b then
          (some (witness T none ρ "impl F[v:=t] at rho  vs  F at rho[v := value of t]" a b), r')
        else (none, r')
      | _, _ => (none, r')
