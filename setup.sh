#!/bin/sh
# Build the framework from files on disk only (offline): Lean development + model driver, Rust harness.
set -e
cd "$(dirname "$0")"
export CARGO_NET_OFFLINE=true
(cd lean && lake build AnthemModel anthem_model)
[ -f harness/Cargo.lock ] || cp /repo/Cargo.lock harness/Cargo.lock
(cd harness && cargo build --offline)
