#!/usr/bin/env python3
"""tools/automutate.py - mechanical mutants of /repo/src against the quick checks (a supporting measurement).

Run it INSIDE a universe (tools/universe.sh <name> python3 tools/automutate.py ...): it edits /repo/src in place,
one line at a time, rebuilds the harness, runs the quick checks of the properties the file is mirrored for and
restores the file.  A mutant is *killed* when one of those checks exits non-zero; survivors are then run against
the pinned test suite (a survivor that the pinned tests kill is outside the task's scope, one that passes them is
either an equivalent mutant or a gap of the generators - to be read by a person).

  --slice i/n     take every n-th mutant starting at i (several universes share the list)
  --max k         at most k mutants of this slice
  --per-file k    at most k mutants per source file (spread evenly over the file) before slicing
  --out FILE      JSON lines, one per mutant
  --skip FILE     (repeatable) results of earlier runs; their mutants are skipped
  --list          print the number of mutants per file and exit
"""
import argparse
import json
import os
import re
import subprocess
import sys
import time
from pathlib import Path

REPO = Path("/repo")
VERIF = Path("/verif")

# source file -> properties whose quick check mirrors it (first = the most specific one)
FILES = {
    "src/translating/formula_representation/tau_star.rs": ["C01", "C08", "C03"],
    "src/translating/formula_representation/natural.rs": ["C08"],
    "src/translating/formula_representation/mu.rs": ["C08", "C03"],
    "src/translating/classical_reduction/gamma.rs": ["C05", "C03"],
    "src/translating/classical_reduction/completion.rs": ["C04", "C02"],
    "src/simplifying/fol/sigma_0/classic.rs": ["C07", "C18"],
    "src/simplifying/fol/sigma_0/intuitionistic.rs": ["C07", "C18"],
    "src/syntax_tree/fol/sigma_0.rs": ["C17", "C07", "C02", "C13", "C03"],
    "src/syntax_tree/asp/mini_gringo.rs": ["C01", "C11", "C04", "C08"],
    "src/breaking/fol/sigma_0/ht.rs": ["C19"],
    "src/verifying/problem/mod.rs": ["C19", "C09", "C12", "C03"],
    "src/verifying/task/strong_equivalence.rs": ["C03", "C12"],
    "src/verifying/task/external_equivalence.rs": ["C02", "C11", "C13"],
    "src/verifying/outline/mod.rs": ["C13"],
    "src/formatting/fol/sigma_0/tptp.rs": ["C06", "C09"],
    "src/formatting/fol/sigma_0/default.rs": ["C15"],
    "src/formatting/asp/mini_gringo/default.rs": ["C14"],
    "src/parsing/fol/sigma_0/pest.rs": ["C15"],
    "src/parsing/asp/mini_gringo/pest.rs": ["C14"],
    "src/parsing/mod.rs": ["C16", "C14", "C15"],
    "src/analyzing/tightness.rs": ["C11", "C04"],
    "src/analyzing/private_recursion.rs": ["C11"],
    "src/analyzing/regularity.rs": ["C11", "C08"],
    "src/command_line/files.rs": ["C20", "C02", "C03"],
    "src/verifying/prover/mod.rs": ["C10"],
    "src/command_line/procedures.rs": ["C10", "C16", "C18", "C03", "C02", "C01", "C08", "C05", "C04", "C07", "C11"],
    "src/convenience/apply/mod.rs": ["C07", "C18"],
    "src/verifying/prover/vampire.rs": ["C10"],
}

SWAPS = [("Quantifier::Forall", "Quantifier::Exists"), ("Conjunction", "Disjunction"), ("Implication", "ReverseImplication"),
         ("Sort::Integer", "Sort::General"), ("Sort::Symbol", "Sort::General"), ("Relation::Less", "Relation::LessEqual"),
         ("Relation::Greater", "Relation::GreaterEqual"), ("Relation::Equal", "Relation::NotEqual"), ("Direction::Forward", "Direction::Backward"),
         ("Direction::Universal", "Direction::Forward"), ("Role::Axiom", "Role::Conjecture"), ("Role::Assumption", "Role::Spec"),
         ("Head::Basic", "Head::Choice"), ("Sign::Negation", "Sign::DoubleNegation"), ("Sign::NoSign", "Sign::Negation"),
         ("BinaryOperator::Add", "BinaryOperator::Subtract"), ("BinaryOperator::Divide", "BinaryOperator::Modulo"),
         ("Infimum", "Supremum"), ("Truth", "Falsity"), ("Decomposition::Independent", "Decomposition::Sequential"),
         ("Success::Theorem", "Success::CounterSatisfiable"), ("lhs", "rhs"), ("forward_", "backward_")]

TEXT_RULES = [
    ("eq->ne", re.compile(r" == "), " != "), ("ne->eq", re.compile(r" != "), " == "),
    ("le->lt", re.compile(r"(?<=[\w\)\]]) <= (?=[\w\(&\*])"), " < "), ("ge->gt", re.compile(r"(?<=[\w\)\]]) >= (?=[\w\(&\*])"), " > "),
    ("lt->le", re.compile(r"(?<=[\w\)\]]) < (?=[\w\(&\*])"), " <= "), ("gt->ge", re.compile(r"(?<=[\w\)\]]) > (?=[\w\(&\*])"), " >= "),
    ("and->or", re.compile(r" && "), " || "), ("or->and", re.compile(r" \|\| "), " && "),
    ("if-not", re.compile(r"\bif !(?=[\w\(])"), "if "), ("not-matches", re.compile(r"!matches!\("), "matches!("),
    ("matches-not", re.compile(r"(?<![!\w])matches!\("), "!matches!("),
    ("true->false", re.compile(r"\btrue\b"), "false"), ("false->true", re.compile(r"\bfalse\b"), "true"),
    ("+1->+0", re.compile(r" \+ 1\b"), " + 0"), ("-1->-0", re.compile(r" - 1\b"), " - 0"), ("+=1->+=2", re.compile(r" \+= 1\b"), " += 2"),
    ("..=->..", re.compile(r"\.\.="), ".."), ("continue->break", re.compile(r"\bcontinue;"), "break;"), ("break->continue", re.compile(r"\bbreak;"), "continue;"),
    ("is_empty-not", re.compile(r"(?<![!\w\.])(\w+(?:\.\w+)*\.is_empty\(\))"), r"!\1"), ("contains-not", re.compile(r"(?<![!\w\.])(\w+(?:\.\w+)*\.contains\([^()]*\))"), r"!\1"),
    ("is_some->is_none", re.compile(r"\.is_some\(\)"), ".is_none()"), ("is_none->is_some", re.compile(r"\.is_none\(\)"), ".is_some()"),
    ("all->any", re.compile(r"\.all\(\|"), ".any(|"), ("any->all", re.compile(r"\.any\(\|"), ".all(|"),
    ("first->last", re.compile(r"\.first\(\)"), ".last()"), ("last->first", re.compile(r"\.last\(\)"), ".first()"),
    ("get1->get0", re.compile(r"\.get\(1\)"), ".get(0)"), ("get0->get1", re.compile(r"\.get\(0\)"), ".get(1)"),
    ("not-flag", re.compile(r"(?<![\w!])!no_(\w+)"), r"no_\1"), ("min->max", re.compile(r"\.min\("), ".max("), ("max->min", re.compile(r"\.max\("), ".min("),
    ("filter-not", re.compile(r"\.filter\(\|(\w+)\| (?!!)"), r".filter(|\1| !"), ("skip1->skip0", re.compile(r"\.skip\(1\)"), ".skip(0)"),
    ("some->none", re.compile(r"=> Some\((\w+)\),"), "=> None,"),
]
DELETE = re.compile(r"^\s*[\w\.\[\]]+\.(push|insert|extend|retain|remove|append|sort\w*|dedup|reverse|push_str|truncate|shift_remove|swap_remove)\(.*\);\s*$")


def mutants_of(rel):
    src = (REPO / rel).read_text().split("\n")
    # lines inside `mod tests { .. }` blocks are left alone
    skip, depth, inside = set(), 0, False
    for i, l in enumerate(src):
        if not inside and re.match(r"\s*mod tests\b", l):
            inside, depth = True, 0
        if inside:
            skip.add(i)
            depth += l.count("{") - l.count("}")
            if depth <= 0 and "{" in "".join(src[min(skip):i + 1]):
                inside = False
    out = []
    for i, line in enumerate(src):
        if i in skip:
            continue
        s = line.strip()
        if not s or s.startswith("//") or s.startswith("#[") or s.startswith("use ") or "unreachable!" in s or "panic!" in s:
            continue
        code = line.split("//")[0]
        for name, rx, rep in TEXT_RULES:
            for k, m in enumerate(rx.finditer(code)):
                new = code[:m.start()] + m.expand(rep) + code[m.end():]
                if new != code:
                    out.append((rel, i, f"{name}#{k}", new + line[len(code):]))
        for a, b in SWAPS:
            for x, y in ((a, b), (b, a)):
                rx = re.compile(r"(?<![\w:])" + re.escape(x) + r"(?!\w)") if "::" not in x and not x.endswith("_") else re.compile(re.escape(x) + (r"(?!\w)" if not x.endswith("_") else ""))
                ms = list(rx.finditer(code))
                if ms and not (y in code and "::" in x):
                    m = ms[0]
                    out.append((rel, i, f"swap {x}->{y}", code[:m.start()] + y + code[m.end():] + line[len(code):]))
        if DELETE.match(line):
            out.append((rel, i, "delete-statement", re.match(r"^\s*", line).group() + "// (statement deleted)"))
    # de-duplicate identical replacements
    seen, uniq = set(), []
    for m in out:
        k = (m[0], m[1], m[3])
        if k not in seen:
            seen.add(k)
            uniq.append(m)
    return uniq


def sh(cmd, cwd, timeout):
    try:
        p = subprocess.run(cmd, cwd=cwd, stdout=subprocess.PIPE, stderr=subprocess.STDOUT, text=True, timeout=timeout,
                           env=dict(os.environ, CARGO_NET_OFFLINE="true", VERIF_SEED="1", RUST_BACKTRACE="0"))
        return p.returncode, p.stdout
    except subprocess.TimeoutExpired:
        return 124, "timeout"


def main():
    ap = argparse.ArgumentParser()
    ap.add_argument("--slice", default="0/1")
    ap.add_argument("--max", type=int, default=10 ** 9)
    ap.add_argument("--per-file", type=int, default=40)
    ap.add_argument("--out", default="/dev/stdout")
    ap.add_argument("--list", action="store_true")
    ap.add_argument("--no-tests", action="store_true")
    ap.add_argument("--skip", action="append", default=[], help="JSON-lines files of earlier runs: their mutants are not repeated")
    a = ap.parse_args()
    allm = []
    for rel in FILES:
        ms = mutants_of(rel)
        if a.list:
            print(f"{len(ms):5d} {rel}")
        if len(ms) > a.per_file:
            step = len(ms) / a.per_file
            ms = [ms[int(k * step)] for k in range(a.per_file)]
        allm.extend(ms)
    if a.list:
        print(f"{len(allm)} mutants after --per-file {a.per_file}")
        return
    done = set()
    for f in a.skip:
        for l in open(f):
            d = json.loads(l)
            done.add((d["file"], d["line"], d["operator"]))
    allm = [m for m in allm if (m[0], m[1] + 1, m[2]) not in done]
    i, n = map(int, a.slice.split("/"))
    mine = allm[i::n][:a.max]
    with open(a.out, "a") as out:
        for rel, ln, op, new in mine:
            path = REPO / rel
            orig = path.read_text()
            lines = orig.split("\n")
            rec = {"file": rel, "line": ln + 1, "operator": op, "before": lines[ln].strip(), "after": new.strip()}
            lines[ln] = new
            t0 = time.time()
            try:
                path.write_text("\n".join(lines))
                rc, log = sh(["cargo", "build", "--offline"], VERIF / "harness", 900)
                if rc != 0:
                    rec["outcome"] = "does-not-compile"
                else:
                    rec["outcome"] = "survived"
                    rec["checks"] = []
                    for pid in FILES[rel]:
                        rc, log = sh(["./check", pid, "quick"], VERIF, 1800)
                        rec["checks"].append([pid, rc])
                        if rc != 0:
                            rec["outcome"] = "killed"
                            rec["killed_by"] = pid
                            viol = [l for l in log.splitlines() if l.startswith("VIOLATION")]
                            rec["no_failing_input"] = bool(viol) and all("no-failing-input-found" in l for l in viol)
                            break
                    if rec["outcome"] == "survived" and not a.no_tests:
                        rc, log = sh(["cargo", "test", "--offline", "--no-fail-fast"], REPO, 1800)
                        passed = sum(int(m.group(1)) for m in re.finditer(r"test result: \w+\. (\d+) passed", log))
                        rec["pinned_tests_passed"] = passed
                        rec["outcome"] = "survived-passes-pinned-tests" if passed >= 141 else "survived-but-pinned-tests-fail"
            finally:
                path.write_text(orig)
            rec["seconds"] = round(time.time() - t0, 1)
            out.write(json.dumps(rec) + "\n")
            out.flush()


if __name__ == "__main__":
    main()
