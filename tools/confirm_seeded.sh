#!/bin/sh
# tools/confirm_seeded.sh <worktree> <n> : independently confirm a seeded change in its scratch worktree:
# builds (with and without the feature), the pinned tests still pass, the demonstration fails with the change
# and passes without it. Prints one summary line.
wt=$1; n=$2; d=$wt/seeded/$n
cd $wt || exit 2
export CARGO_NET_OFFLINE=true
git checkout -q -- . ; rm -f tests/seeded_*.rs tests/roundtrip_*.rs tests/c06_seed*.rs tests/gamma_ht_c05.rs
run_demo() {
  rc=0
  for t in $d/*.rs; do [ -f "$t" ] && [ "$(basename $t)" != gamma_ht.rs ] && { cp $t tests/; b=$(basename $t .rs); cargo test --offline --features verif --test $b >/dev/null 2>&1 || rc=1; rm -f tests/$b.rs; }; done
  [ -f $d/gamma_ht.rs ] && { cp $d/gamma_ht.rs tests/gamma_ht_c05.rs; cargo test --offline --test gamma_ht_c05 >/dev/null 2>&1 || rc=1; rm -f tests/gamma_ht_c05.rs; }
  if [ -f $d/demo.sh ] && [ ! -f $d/seeded_c01_$n.rs ]; then cargo build --offline >/dev/null 2>&1; bash $d/demo.sh >/dev/null 2>&1 || rc=1; fi
  return $rc
}
run_demo; clean=$?
git apply $d/patch.diff || { echo "$d: PATCH DOES NOT APPLY"; exit 1; }
b1=0; cargo build --offline >/dev/null 2>&1 || b1=1
b2=0; cargo build --offline --features verif >/dev/null 2>&1 || b2=1
passed=$(cargo test --offline --no-fail-fast 2>&1 | grep -E "^test result" | awk '{s+=$4} END {print s}')
run_demo; mutated=$?
git checkout -q -- .
echo "$d: build=$b1/$b2 tests_passed=$passed demo_clean_rc=$clean demo_mutated_rc=$mutated"
