#!/bin/sh
# Supporting measurement, not a check: which regions of /repo/src do the quick correspondence suites execute?
# Builds a coverage-instrumented copy of the harness with the nightly toolchain (llvm-tools are part of it) in a
# scratch directory outside /verif, runs every suite of checklib/props.py at its quick size (seed $1, default 1)
# and prints, per source file of /repo, the regions never executed. Second stage: the anthem binary itself, built
# the same way, under every quick check that drives the CLI (VERIF_COV_DIR, see checklib/cli.py) - this rewrites the
# evidence files, so run tools/runall.sh afterwards.  Usage: tools/coverage.sh [seed] [scratch-dir]
set -e
cd "$(dirname "$0")/.."
seed=${1:-1}
S=${2:-/tmp/verif_cov}
B=$(dirname "$(rustc +nightly --print target-libdir)")/bin
rm -rf "$S/prof" "$S/out"; mkdir -p "$S/prof" "$S/out"
rsync -a --exclude target harness/ "$S/"
cp /repo/Cargo.lock "$S/Cargo.lock" 2>/dev/null || true
(cd "$S" && CARGO_NET_OFFLINE=true LLVM_PROFILE_FILE="$S/build-%p-%m.profraw" RUSTFLAGS="-C instrument-coverage" cargo +nightly build --offline 2>&1 | tail -1)
python3 - "$S" <<'PY'
import sys
sys.path.insert(0, 'checklib')
import props
suites = {}
for cfg in props.PROPS.values():
    for s, nq, nt in cfg["suites"]:
        suites[s] = max(suites.get(s, 0), nq)
open(sys.argv[1] + '/suites.txt', 'w').write(''.join(f"{s} {n}\n" for s, n in suites.items()))
PY
while read s n; do
  LLVM_PROFILE_FILE="$S/prof/$s.profraw" "$S/target/debug/verif-harness" gen $s --seed $seed --n $n --out "$S/out" --corpus corpus >/dev/null 2>&1 || echo "suite $s failed"
done < "$S/suites.txt"
"$B/llvm-profdata" merge -sparse "$S"/prof/*.profraw -o "$S/all.profdata"
"$B/llvm-cov" export -format=text "$S/target/debug/verif-harness" -instr-profile="$S/all.profdata" > "$S/cov.json" 2>/dev/null
python3 - "$S" <<'PY'
import json, collections, sys
d = json.load(open(sys.argv[1] + '/cov.json'))
reg = collections.defaultdict(int)
for f in d['data'][0]['functions']:
    for ls, cs, le, ce, cnt, fid, efid, kind in f['regions']:
        if kind == 0:
            k = (f['filenames'][fid], ls, cs, le, ce)
            reg[k] = max(reg[k], cnt)
by = collections.defaultdict(list)
tot = collections.Counter()
for k, c in reg.items():
    if k[0].startswith('/repo/src/'):
        tot[k[0]] += 1
        if c == 0:
            by[k[0]].append(k[1:])
for fn in sorted(tot):
    src = open(fn).read().split('\n')
    print(f"== {fn}: {len(by[fn])} of {tot[fn]} regions never executed")
    last = None
    for ls, cs, le, ce in sorted(by[fn]):
        if ls != last:
            print(f"   {ls}: {src[ls-1].strip()[:110]}")
        last = ls
PY

echo "#### stage 2: the anthem binary under the CLI explorations of the quick checks"
rm -rf "$S/prof"; mkdir -p "$S/prof"
for p in $(python3 -c "import json; print(' '.join(c['property_id'] for c in json.load(open('MANIFEST.json'))['checks']))"); do
  VERIF_COV_DIR="$S" VERIF_SEED=$seed ./check $p quick 2>&1 | grep -E "VIOLATION|$p quick:" | cut -c1-200
done
ls "$S"/prof/*.profraw > "$S/profiles.txt"
"$B/llvm-profdata" merge -sparse -f "$S/profiles.txt" -o "$S/cli.profdata"
"$B/llvm-cov" export -format=text "$S/cli/debug/anthem" -instr-profile="$S/cli.profdata" > "$S/cov.json" 2>/dev/null
python3 - "$S" <<'PY'
import json, collections, sys
d = json.load(open(sys.argv[1] + '/cov.json'))
reg = collections.defaultdict(int)
for f in d['data'][0]['functions']:
    for ls, cs, le, ce, cnt, fid, efid, kind in f['regions']:
        if kind == 0:
            k = (f['filenames'][fid], ls, cs, le, ce)
            reg[k] = max(reg[k], cnt)
by = collections.defaultdict(list)
tot = collections.Counter()
for k, c in reg.items():
    if k[0].startswith('/repo/src/'):
        tot[k[0]] += 1
        if c == 0:
            by[k[0]].append(k[1:])
for fn in sorted(tot):
    src = open(fn).read().split('\n')
    print(f"== {fn}: {len(by[fn])} of {tot[fn]} regions never executed")
    if not any(x in fn for x in ('command_line', 'prover', 'main.rs', 'convenience', 'parsing/mod.rs', 'syntax_tree/mod.rs', 'problem/mod.rs')):
        continue
    last = None
    for ls, cs, le, ce in sorted(by[fn]):
        if ls != last:
            print(f"   {ls}: {src[ls-1].strip()[:110]}")
        last = ls
PY
