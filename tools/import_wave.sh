#!/bin/sh
# tools/import_wave.sh <worktree> <prop> <first-index> : copy seeded/1..3 of a sub-agent's worktree to seeded/<prop>-<k>
cd "$(dirname "$0")/.."
wt=$1; p=$2; k=$3
for n in 1 2 3; do
  [ -d $wt/seeded/$n ] || continue
  d=seeded/$p-$k; mkdir -p $d
  cp -r $wt/seeded/$n/. $d/
  rm -rf $d/target $d/*.log
  echo "$d <- $wt/seeded/$n"
  k=$((k+1))
done
