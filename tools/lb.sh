#!/bin/sh
# tools/lb.sh <Module> : build one Lean module and show only errors
cd "$(dirname "$0")/../lean"
lake build "$1" 2>&1 | awk '/^error|^✖/{p=1} /^warning|^⚠|^✔|^ℹ/{p=0} p' | head -${2:-80}
echo "rc done"
