#!/bin/sh
# tools/mutant.sh <patch> <prop>... : apply a seeded change to /repo, run the quick checks, undo.
cd "$(dirname "$0")/.."
patch=$(readlink -f "$1"); shift
git -C /repo apply "$patch" || { echo "patch does not apply"; exit 2; }
for p in "$@"; do
  timeout 600 ./check $p quick 2>&1 | grep -E "VIOLATION|quick:" | cut -c1-200
done
git -C /repo checkout -- .
