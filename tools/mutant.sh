#!/bin/sh
# tools/mutant.sh <patch> <prop>... : apply a seeded change to /repo, run the quick checks, undo.
cd "$(dirname "$0")/.."
patch=$(readlink -f "$1"); shift
git -C /repo apply "$patch" || { echo "patch does not apply"; exit 2; }
for p in "$@"; do
  timeout 600 ./check $p quick 2>&1 | grep -E "VIOLATION|quick:" | cut -c1-200
done
# undo: tracked files back, and files the patch added removed
git -C /repo checkout -- .
git -C /repo clean -fdq -- src tests res 2>/dev/null
