#!/bin/bash
# tools/process_wave.sh <prop> <first-index> [extra props to run] : confirm, import and run a sub-agent's three seeded changes
cd "$(dirname "$0")/.."
p=$1; k=$2; shift 2
wt=/tmp/wt_${p}b
for n in 1 2 3; do [ -d $wt/seeded/$n ] && tools/confirm_seeded.sh $wt $n; done 2>&1 | tail -3
tools/import_wave.sh $wt $p $k
for n in 0 1 2; do
  s=$p-$((k+n)); [ -d seeded/$s ] || continue
  echo "== $s"; tools/mutant.sh seeded/$s/patch.diff $p "$@" | cut -c1-170
done
git -C /repo status --short
