#!/bin/sh
# tools/regress_parallel.sh [N] : every kept seeded change against the quick check of its own property, split over N
# universes (tools/universe.sh; default 4) - the real /repo is not touched. Writes work/regression_parallel.log.
cd "$(dirname "$0")/.."
n=${1:-4}
ls -d seeded/*/ | xargs -n1 basename > work/regress_all.txt
i=0
while [ $i -lt $n ]; do
  awk -v n=$n -v i=$i 'NR % n == i' work/regress_all.txt > work/regress_slice_$i.txt
  slice=$(cat work/regress_slice_$i.txt | tr '\n' ' ')
  ( tools/universe.sh rg$i sh -c 'for s in $0; do p=${s%-*}; if grep -q "\"retired\"" seeded/$s/meta.json 2>/dev/null; then echo "== $s (retired)"; continue; fi; echo "== $s"; tools/mutant.sh seeded/$s/patch.diff $p 2>&1 | grep -E "VIOLATION|quick:|does not apply" | grep -v "violation_[2-9]\|violation_1[0-9]" | cut -c1-160; done' "$slice" > work/regress_part_$i.log 2>&1 ) &
  i=$((i+1))
done
wait
cat work/regress_part_*.log > work/regression_parallel.log
python3 - <<'PY'
import re
t = open('work/regression_parallel.log').read()
blocks = re.split(r'^== ', t, flags=re.M)[1:]
miss = [b.split('\n')[0] for b in blocks if 'VIOLATION' not in b and 'retired' not in b.split('\n')[0]]
print(len(blocks), "changes; not caught:", miss)
PY
