#!/bin/sh
# tools/run_seeded.sh : run every kept seeded change against the checks of its property (plus dependants); prints one block per change.
cd "$(dirname "$0")/.."
for d in seeded/*/; do
  id=$(basename $d); prop=${id%-*}
  case $prop in
    C01) props="C01 C03 C08";; C05) props="C05 C03";; C07) props="C07 C18 C19";; C17) props="C17 C07";; C19) props="C19 C02 C03 C09";;
    *) props="$prop";;
  esac
  extra=$(python3 -c "import json;print(' '.join(json.load(open('$d/meta.json')).get('also_run',[])))" 2>/dev/null)
  echo "== $id ($props $extra)"
  tools/mutant.sh $d/patch.diff $props $extra
done
