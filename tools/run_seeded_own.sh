#!/bin/sh
# tools/run_seeded_own.sh : every kept seeded change against the quick check of its own property only (about 1.5 h)
cd "$(dirname "$0")/.."
for d in seeded/*/; do
  s=$(basename $d); p=${s%-*}
  grep -q '"retired"' $d/meta.json 2>/dev/null && { echo "== $s (retired)"; continue; }
  echo "== $s"
  tools/mutant.sh $d/patch.diff $p 2>&1 | grep -E "VIOLATION|quick:|does not apply" | grep -v "violation_[2-9]\|violation_1[0-9]" | cut -c1-160
done
git -C /repo status --short
