#!/bin/sh
# Run every registered quick check with the given seed (default 1); print the summary lines.
cd "$(dirname "$0")/.."
seed=${1:-1}
tier=${2:-quick}
for p in $(python3 -c "import json; print(' '.join(c['property_id'] for c in json.load(open('MANIFEST.json'))['checks']))"); do
  VERIF_SEED=$seed timeout 3600 ./check $p $tier 2>&1 | grep -E "VIOLATION|$p $tier:" | cut -c1-220
done
