#!/usr/bin/env python3
"""Regenerates the table of seeded changes in DESIGN.md (between the SEEDED-TABLE markers) from seeded/*/meta.json."""
import json, re, sys
from pathlib import Path
root = Path(__file__).resolve().parent.parent
rows = []
for d in sorted((root / "seeded").iterdir()):
    m = d / "meta.json"
    if not m.exists():
        continue
    j = json.loads(m.read_text())
    note = j.get("note", "")
    if j.get("retired"):
        note = ("RETIRED: " + j["retired"] + ("; " + note if note else ""))
    need = j.get("needs_to_manifest", "")
    missed = "MISSED" in need or "MISSED" in note
    rows.append((d.name, j.get("breaks_property", ""), need.replace("|", "/"), ", ".join(j.get("caught_by_quick_checks", [])),
                 ("missed at first; " + (note or "see needs-to-manifest column")).replace("|", "/") if missed else (note.replace("|", "/"))))
out = ["| change | breaks | needs, in order to manifest | caught by quick check of | remarks |", "|---|---|---|---|---|"]
for r in rows:
    out.append("| seeded/%s | %s | %s | %s | %s |" % r)
text = "\n".join(out)
p = root / "DESIGN.md"
s = p.read_text()
a, b = "<!-- SEEDED-TABLE-BEGIN -->", "<!-- SEEDED-TABLE-END -->"
if a in s and b in s:
    s = s[:s.index(a) + len(a)] + "\n" + text + "\n" + s[s.index(b):]
    p.write_text(s)
    print(f"updated DESIGN.md with {len(rows)} rows")
else:
    print(text)
