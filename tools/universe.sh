#!/bin/sh
# tools/universe.sh <name> <command...> : run a command in a private copy of /repo and /verif.
# The copies live under /tmp/verif_universe/<name>/{repo,verif} (refreshed with rsync on every call) and are
# bind-mounted over /repo and /verif inside a mount namespace of their own, so every path of the machinery is
# unchanged and several universes (mutation experiments, regression slices) run side by side without touching
# the real /repo or the evidence under /verif. Nothing registered in MANIFEST.json uses this.
# `tools/universe.sh <name> --remove` deletes the copy.
name=$1; shift
U=/tmp/verif_universe/$name
if [ "$1" = "--remove" ]; then rm -rf "$U"; exit 0; fi
mkdir -p "$U/repo" "$U/verif"
rsync -a --delete /repo/ "$U/repo/" 2>/dev/null
git -C "$U/repo" checkout -q -- . 2>/dev/null   # the real working tree may carry a patch under test
rsync -a --delete --exclude work --exclude replays /verif/ "$U/verif/" 2>/dev/null
mkdir -p "$U/verif/work" "$U/verif/replays"
exec unshare -m sh -c 'mount --bind "$0/repo" /repo && mount --bind "$0/verif" /verif && cd /verif && shift 0 && exec "$@"' "$U" "$@"
